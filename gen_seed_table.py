#!/usr/bin/env python3
"""Prints the DESIGN.md §8 table from /verif/seeded/*/meta.json"""
import json, glob, os
rows=[]
for d in sorted(glob.glob('/verif/seeded/*')):
    m=json.load(open(os.path.join(d,'meta.json')))
    rows.append("| %s | %s | %s | %s |" % (os.path.basename(d), m.get('summary','').replace('|','/').replace('\n',' ')[:300], m.get('needs','').replace('|','/').replace('\n',' ')[:220], m.get('checks_run','').replace('|','/')[:400]))
print("| seed | change | needs, to manifest | result of the checks |\n|---|---|---|---|")
print("\n".join(rows))
