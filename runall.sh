#!/bin/bash
# runs every registered check of a tier and summarises: any INCONCLUSIVE / UNREACHED / UNCONFIRMED / VIOLATION on the unchanged tree needs attention
tier=${1:-quick}
cd "$(dirname "$0")"
for p in $(python3 -c "import checkcfg; print(' '.join(sorted(checkcfg.PROPS)))"); do
  s=$(date +%s)
  out=$(./check $p $tier 2>&1); rc=$?
  e=$(( $(date +%s) - s ))
  flags=$(echo "$out" | grep -o "^INCONCLUSIVE\|^UNREACHED-COVER\|^UNCONFIRMED\|^VIOLATION\|^COVER-NOT-REPRODUCED\|^S3-CTI\|^KNOWN-FINDING\|Traceback" | sort | uniq -c | tr '\n' ' ')
  echo "$p rc=$rc ${e}s  $(echo "$out" | head -1 | cut -c1-110)  $flags"
done
