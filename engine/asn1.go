package main

import (
	"fmt"
	"go/types"
)

// Opaque structure-preserving model of encoding/asn1: Marshal freezes the value into a blob table and returns a
// one-byte slice holding a reference; Unmarshal of such a reference thaws it; Unmarshal of any other bytes either
// fails or (havoc mode) yields an arbitrary value of the target type.

type Frozen struct {
	elems []Value
	isNil bool
}

type asn1Memo struct {
	key string
	ok  bool
	val Value
}

type blobEntry struct {
	v Value
	t types.Type
}

var blobTable []blobEntry

func BlobRef(id int) *Term { return intern(&Term{op: "blobref", w: 8, x: id}) }

func (e *Engine) freeze(st *State, v Value) Value {
	switch x := v.(type) {
	case *Term, Str, nil:
		return v
	case Struct:
		f := make([]Value, len(x.f))
		for i := range f {
			f[i] = e.freeze(st, x.f[i])
		}
		return Struct{f: f}
	case Array:
		f := make([]Value, len(x.e))
		for i := range f {
			f[i] = e.freeze(st, x.e[i])
		}
		return Array{e: f}
	case Slice:
		fr := Frozen{isNil: x.arr == 0}
		for i := 0; i < x.len; i++ {
			fr.elems = append(fr.elems, e.freeze(st, st.arrOf(x).e[x.off+i]))
		}
		return fr
	}
	e.kill(fmt.Sprintf("incomplete: asn1 model cannot freeze %T", v))
	return nil
}

func (e *Engine) thaw(st *State, v Value) Value {
	switch x := v.(type) {
	case Struct:
		f := make([]Value, len(x.f))
		for i := range f {
			f[i] = e.thaw(st, x.f[i])
		}
		return Struct{f: f}
	case Array:
		f := make([]Value, len(x.e))
		for i := range f {
			f[i] = e.thaw(st, x.e[i])
		}
		return Array{e: f}
	case Frozen:
		if x.isNil || len(x.elems) == 0 {
			return Slice{}
		}
		a := Array{e: make([]Value, len(x.elems))}
		for i := range a.e {
			a.e[i] = e.thaw(st, x.elems[i])
		}
		return Slice{arr: st.alloc(a), len: len(a.e), cap: len(a.e)}
	}
	return v
}

func eqFrozen(a, b Value) *Term {
	switch x := a.(type) {
	case Frozen:
		y, ok := b.(Frozen)
		if !ok || len(x.elems) != len(y.elems) {
			return Bool(false)
		}
		r := Bool(true)
		for i := range x.elems {
			r = And(r, eqFrozen(x.elems[i], y.elems[i]))
		}
		return r
	case Struct:
		y, ok := b.(Struct)
		if !ok || len(x.f) != len(y.f) {
			return Bool(false)
		}
		r := Bool(true)
		for i := range x.f {
			r = And(r, eqFrozen(x.f[i], y.f[i]))
		}
		return r
	case Array:
		y, ok := b.(Array)
		if !ok || len(x.e) != len(y.e) {
			return Bool(false)
		}
		r := Bool(true)
		for i := range x.e {
			r = And(r, eqFrozen(x.e[i], y.e[i]))
		}
		return r
	}
	return eqv(a, b)
}

func (e *Engine) asn1Marshal(st *State, arg Value) Value {
	iv := arg.(Iface)
	v := iv.v
	t := iv.t
	if p, ok := v.(Ptr); ok {
		v = st.load(e.deref(st, p, "asn1.Marshal"))
		t = t.Underlying().(*types.Pointer).Elem()
	}
	blobTable = append(blobTable, blobEntry{v: e.freeze(st, v), t: t})
	a := Array{e: []Value{BlobRef(len(blobTable) - 1)}}
	return Tuple{e: []Value{Slice{arr: st.alloc(a), len: 1, cap: 1}, Iface{}}}
}

func opaqueErr() Value { return Iface{t: types.Universe.Lookup("error").Type(), v: BV(8, 1)} } // asn1 errors are never compared

func (e *Engine) asn1Unmarshal(st *State, b Slice, target Value) Value {
	iv := target.(Iface)
	p := e.deref(st, iv.v.(Ptr), "asn1.Unmarshal")
	tt := iv.t.Underlying().(*types.Pointer).Elem()
	if b.len == 1 {
		if c, ok := st.arrOf(b).e[b.off].(*Term); ok && c.op == "blobref" {
			be := blobTable[c.x]
			if !types.Identical(be.t.Underlying(), tt.Underlying()) {
				return Tuple{e: []Value{Slice{}, opaqueErr()}}
			}
			st.store(p, e.thaw(st, be.v))
			return Tuple{e: []Value{Slice{}, Iface{}}}
		}
	}
	if !e.asn1Havoc {
		return Tuple{e: []Value{Slice{}, opaqueErr()}}
	}
	// untrusted bytes: either malformed or an arbitrary value of the target type — but a function of the bytes: decoding
	// the same bytes into the same type again gives the same outcome
	key := tt.String() + ":"
	for i := 0; i < b.len; i++ {
		if t, ok := st.arrOf(b).e[b.off+i].(*Term); ok {
			key += fmt.Sprintf("%d,", t.id)
		}
	}
	for _, m := range st.asn1Memo {
		if m.key == key {
			if !m.ok {
				return Tuple{e: []Value{Slice{}, opaqueErr()}}
			}
			st.store(p, e.thaw(st, m.val))
			return Tuple{e: []Value{Slice{}, Iface{}}}
		}
	}
	if !e.decide(st, st.fresh("asn1ok", 0)) {
		st.asn1Memo = append(st.asn1Memo, asn1Memo{key: key})
		return Tuple{e: []Value{Slice{}, opaqueErr()}}
	}
	hv := e.havoc(st, tt, 0)
	st.asn1Memo = append(st.asn1Memo, asn1Memo{key: key, ok: true, val: e.freeze(st, hv)})
	st.store(p, hv)
	return Tuple{e: []Value{Slice{}, Iface{}}}
}

func (e *Engine) choose(st *State, tag string, n int) int {
	for i := 0; i < n-1; i++ {
		if e.decide(st, st.fresh(tag, 0)) {
			return i
		}
	}
	return n - 1
}

func (e *Engine) havoc(st *State, t types.Type, depth int) Value {
	switch u := t.Underlying().(type) {
	case *types.Struct:
		s := Struct{f: make([]Value, u.NumFields())}
		for i := range s.f {
			s.f[i] = e.havoc(st, u.Field(i).Type(), depth)
		}
		return s
	case *types.Slice:
		if b, ok := u.Elem().Underlying().(*types.Basic); ok && b.Kind() == types.Uint8 {
			// a byte string: a well-formed element of whatever kind the reader expects, or two arbitrary bytes
			if depth > 0 || e.choose(st, "bytesKind", 2) == 0 {
				st.nvars++
				el := RVar(fmt.Sprintf("any#%d", st.nvars))
				a := Array{e: []Value{TagByte("any", el, 0), TagByte("any", el, 1)}}
				return Slice{arr: st.alloc(a), len: 2, cap: 2}
			}
			a := Array{e: []Value{st.fresh("raw", 8), st.fresh("raw", 8)}}
			return Slice{arr: st.alloc(a), len: 2, cap: 2}
		}
		n := e.choose(st, "vecLen", e.asn1MaxVec+1)
		if n == 0 {
			return Slice{}
		}
		a := Array{e: make([]Value, n)}
		for i := range a.e {
			a.e[i] = e.havoc(st, u.Elem(), depth+1)
		}
		return Slice{arr: st.alloc(a), len: n, cap: n}
	case *types.Basic:
		if u.Info()&types.IsString != 0 {
			return Str{b: []*Term{st.fresh("str", 8)}}
		}
		w, _, ok := intWidth(t)
		if ok {
			return st.fresh("int", w)
		}
	}
	e.kill("incomplete: asn1 havoc of " + t.String())
	return nil
}
