// instr: copy a Go source file, inserting verifYield("<kind>") before every mutex operation
// (X.Lock(), X.RLock(), X.Unlock(), X.RUnlock(), also when deferred). Used to enforce a schedule natively.
package main

import (
	"bytes"
	"go/ast"
	"go/format"
	"go/parser"
	"go/token"
	"os"
)

func isMu(call *ast.CallExpr) bool {
	sel, ok := call.Fun.(*ast.SelectorExpr)
	if !ok || len(call.Args) != 0 {
		return false
	}
	switch sel.Sel.Name {
	case "Lock", "RLock", "Unlock", "RUnlock":
		return true
	}
	return false
}

func yieldStmt() ast.Stmt {
	return &ast.ExprStmt{X: &ast.CallExpr{Fun: ast.NewIdent("verifYield")}}
}

var generated = map[*ast.BlockStmt]bool{}

func rewriteList(list []ast.Stmt) []ast.Stmt {
	var out []ast.Stmt
	for _, s := range list {
		switch x := s.(type) {
		case *ast.ExprStmt:
			if c, ok := x.X.(*ast.CallExpr); ok && isMu(c) {
				out = append(out, yieldStmt())
			}
		case *ast.DeferStmt:
			if isMu(x.Call) {
				// defer X.Unlock()  =>  defer func() { verifYield(); X.Unlock() }()
				body := &ast.BlockStmt{List: []ast.Stmt{yieldStmt(), &ast.ExprStmt{X: x.Call}}}
				generated[body] = true
				x.Call = &ast.CallExpr{Fun: &ast.FuncLit{Type: &ast.FuncType{Params: &ast.FieldList{}}, Body: body}}
			}
		}
		out = append(out, s)
	}
	return out
}

func main() {
	fset := token.NewFileSet()
	f, err := parser.ParseFile(fset, os.Args[1], nil, parser.ParseComments)
	if err != nil {
		panic(err)
	}
	ast.Inspect(f, func(n ast.Node) bool {
		switch x := n.(type) {
		case *ast.BlockStmt:
			if !generated[x] {
				x.List = rewriteList(x.List)
			}
		case *ast.CaseClause:
			x.Body = rewriteList(x.Body)
		case *ast.CommClause:
			x.Body = rewriteList(x.Body)
		}
		return true
	})
	var buf bytes.Buffer
	if err := format.Node(&buf, fset, f); err != nil {
		panic(err)
	}
	os.WriteFile(os.Args[2], buf.Bytes(), 0644)
}
