package main

import (
	"bytes"
	"fmt"
	"go/ast"
	"go/format"
	"go/token"
	"go/types"
	"os"
	"path/filepath"
	"strings"

	"golang.org/x/tools/go/packages"
)

// nativeRedirects produces, for a native replay, copies of the package's own source files in which every call of a
// redirected library function or method (the same table the symbolic run uses) is replaced by a call of the harness
// stub: pkg.F(args) => stub(args), recv.M(args) => stub(recv, args). The copies are generated from the current files of
// dir on every replay and handed to `go test -overlay`; nothing is written into the repository. This lets the native twin
// run the real code against the same environment model (crypto, TLS connection) as the symbolic run.
func nativeRedirects(dir string, overlay map[string][]byte, redirects map[string]string, tmp string) map[string]string {
	cfg := &packages.Config{Mode: packages.NeedName | packages.NeedFiles | packages.NeedSyntax | packages.NeedTypes | packages.NeedTypesInfo | packages.NeedImports | packages.NeedDeps,
		Dir: dir, Env: append(os.Environ(), "GOFLAGS=-mod=mod", "GOPROXY=off", "GODEBUG=goindex=0"), Overlay: overlay}
	pkgs, err := packages.Load(cfg, ".")
	if err != nil || len(pkgs) == 0 {
		panic(fmt.Sprint("native redirect: load failed: ", err))
	}
	pkg := pkgs[0]
	out := map[string]string{}
	for i, f := range pkg.Syntax {
		_ = i
		name := pkg.Fset.Position(f.Package).Filename
		if strings.Contains(filepath.Base(name), "zz_verif_") {
			continue
		}
		changed := false
		ast.Inspect(f, func(n ast.Node) bool {
			call, ok := n.(*ast.CallExpr)
			if !ok {
				return true
			}
			// "wrap:<type>=<func>": a value of a concrete library type that is passed where an interface is expected is
			// wrapped into a harness adapter, so that dynamic dispatch reaches the stubs as well
			if sig, ok := pkg.TypesInfo.TypeOf(call.Fun).(*types.Signature); ok {
				for i, arg := range call.Args {
					at := pkg.TypesInfo.TypeOf(arg)
					if at == nil {
						continue
					}
					w, ok := redirects["wrap:"+types.TypeString(at, nil)]
					if !ok {
						continue
					}
					var pt types.Type
					if sig.Variadic() && i >= sig.Params().Len()-1 {
						pt = sig.Params().At(sig.Params().Len() - 1).Type().(*types.Slice).Elem()
					} else if i < sig.Params().Len() {
						pt = sig.Params().At(i).Type()
					}
					if pt != nil && types.IsInterface(pt) {
						call.Args[i] = &ast.CallExpr{Fun: ast.NewIdent(w), Args: []ast.Expr{arg}}
						changed = true
					}
				}
			}
			switch fun := call.Fun.(type) {
			case *ast.SelectorExpr:
				if sel, ok := pkg.TypesInfo.Selections[fun]; ok { // method call
					if fn, ok := sel.Obj().(*types.Func); ok {
						if stub, ok := redirects[fn.FullName()]; ok {
							// a method promoted from embedded fields: spell the path to the embedded receiver out
							recv := fun.X
							rt := sel.Recv()
							idx := sel.Index()
							for k := 0; k < len(idx)-1; k++ {
								if p, ok := rt.Underlying().(*types.Pointer); ok {
									rt = p.Elem()
								}
								st, ok := rt.Underlying().(*types.Struct)
								if !ok {
									break
								}
								f := st.Field(idx[k])
								recv = &ast.SelectorExpr{X: recv, Sel: ast.NewIdent(f.Name())}
								rt = f.Type()
							}
							// pointer-receiver method called on an addressable value: pass its address
							if sig, ok := fn.Type().(*types.Signature); ok && sig.Recv() != nil {
								_, wantPtr := sig.Recv().Type().(*types.Pointer)
								_, havePtr := rt.Underlying().(*types.Pointer)
								if wantPtr && !havePtr {
									recv = &ast.UnaryExpr{Op: token.AND, X: recv}
								}
								// value-receiver method called through a pointer: pass the value
								if !wantPtr && havePtr {
									recv = &ast.StarExpr{X: recv}
								}
							}
							fun.X = recv
							call.Args = append([]ast.Expr{fun.X}, call.Args...)
							call.Fun = ast.NewIdent(stub)
							changed = true
						}
					}
				} else if obj, ok := pkg.TypesInfo.Uses[fun.Sel].(*types.Func); ok { // pkg.Func
					if stub, ok := redirects[obj.FullName()]; ok {
						call.Fun = ast.NewIdent(stub)
						changed = true
					}
				}
			case *ast.Ident:
				if obj, ok := pkg.TypesInfo.Uses[fun].(*types.Func); ok {
					if stub, ok := redirects[obj.FullName()]; ok {
						call.Fun = ast.NewIdent(stub)
						changed = true
					}
				}
			}
			return true
		})
		if !changed {
			continue
		}
		// imports that are no longer referenced become blank imports
		used := map[string]bool{}
		ast.Inspect(f, func(n ast.Node) bool {
			if se, ok := n.(*ast.SelectorExpr); ok {
				if id, ok := se.X.(*ast.Ident); ok {
					if pn, ok := pkg.TypesInfo.Uses[id].(*types.PkgName); ok {
						used[pn.Imported().Path()] = true
					}
				}
			}
			return true
		})
		for _, imp := range f.Imports {
			path := strings.Trim(imp.Path.Value, `"`)
			if !used[path] && (imp.Name == nil || (imp.Name.Name != "_" && imp.Name.Name != ".")) {
				imp.Name = ast.NewIdent("_")
			}
		}
		var buf bytes.Buffer
		if err := format.Node(&buf, pkg.Fset, f); err != nil {
			panic(err)
		}
		p := filepath.Join(tmp, "redir_"+filepath.Base(name))
		os.WriteFile(p, buf.Bytes(), 0644)
		out[name] = p
	}
	return out
}
