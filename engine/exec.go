package main

import (
	"crypto/sha256"
	"sort"
	"os"
	"path/filepath"
	"regexp"
	"fmt"
	"go/constant"
	"go/token"
	"go/types"
	"strings"

	"golang.org/x/tools/go/ssa"
)

type Violation struct {
	id    string
	kind  string // assert | panic
	trace []string
	model map[string]uint64
	rats  map[string]string // values of Real-sorted variables ("num/den")
	order []string
}

type Engine struct {
	prog       *ssa.Program
	pkg        *ssa.Package
	sol        *Solver
	work       []*State
	paths      int
	forks      int
	steps      int
	violations map[string]*Violation
	vcount     map[string]int
	covers     map[string]int
	funcs      map[string]bool
	incomplete map[string]int
	ends       map[string]int
	maxLoop    int
	loopBound  int
	maxPaths   int
	preemptBound int
	noinit     bool
	noHangCandidates bool
	constHex   bool // hex.EncodeToString of opaque bytes is a constant string too (see -consthex)
	detSched   bool
	mapOrder   bool
	redirects  map[string]string
	vtraces    map[string][]string
	pureDepth  int
	raceOn     bool
	realHex    bool
	coverModels map[string]*Violation
	shard, shardN, shardDepth int
	asn1Havoc  bool
	debugDeadlock bool
	concreteClock bool
	acqOnly       bool
	modPrefix     string
	asn1MaxVec    int
	lenient    bool
	lazyGlobals []int
	deadlocks  int
}

type pathEnd struct{ why string }
type resched struct{}

func (e *Engine) switchTo(st *State, j int) {
	st.gs[st.cur].frames = st.frames
	st.cur = j
	st.frames = st.gs[j].frames
}

func (e *Engine) runnable(st *State, j int) bool {
	g := st.gs[j]
	return !g.done && g.blocked == ""
}

// schedPoint: before a synchronisation operation another runnable goroutine may run first (costs one preemption)
func (e *Engine) schedPoint(st *State) {
	g := st.gs[st.cur]
	if g.resumed {
		g.resumed = false
		return
	}
	if st.preempts >= e.preemptBound {
		return
	}
	for j := range st.gs {
		if j == st.cur || !e.runnable(st, j) {
			continue
		}
		b := st.fresh("sched", 0)
		if e.decide(st, b) {
			st.preempts++
			st.trace = append(st.trace, fmt.Sprintf("preempt g%d@%d->g%d", st.cur, g.muN, j))
			g.resumed = true
			e.switchTo(st, j)
			panic(resched{})
		}
	}
}

// block: the current goroutine cannot proceed; pick another runnable one (symbolic choice, no preemption cost)
func (e *Engine) block(st *State, key string) {
	g := st.gs[st.cur]
	g.blocked = key
	g.resumed = true
	if e.debugDeadlock {
		st.trace = append(st.trace, fmt.Sprintf("g%d blocks on %s at %s", st.cur, key, e.pos(st)))
	}
	e.yield(st)
}

func (e *Engine) yield(st *State) {
	var cands []int
	for j := range st.gs {
		if j != st.cur && e.runnable(st, j) {
			cands = append(cands, j)
		}
	}
	if len(cands) == 0 {
		for j, g := range st.gs {
			if g.blocked == "quiesce" {
				g.blocked = ""
				st.trace = append(st.trace, fmt.Sprintf("quiescence -> g%d", j))
				e.switchTo(st, j)
				panic(resched{})
			}
		}
		woke := false
		for _, g := range st.gs { // nothing can run: time passes, sleepers wake up
			if g.blocked == "sleep" {
				g.blocked = ""
				woke = true
			}
		}
		if woke {
			for j, g := range st.gs {
				if !g.done && g.blocked == "" && j != st.cur {
					st.trace = append(st.trace, fmt.Sprintf("time passes -> g%d", j))
					e.switchTo(st, j)
					panic(resched{})
				}
			}
			if g := st.gs[st.cur]; !g.done && g.blocked == "" {
				panic(resched{})
			}
		}
		if !st.gs[0].done {
			r := e.sol.Check(st.pc)
			if r == "sat" {
				desc := "main blocked on " + st.gs[0].blocked
				if e.debugDeadlock {
					for j, g := range st.gs {
						where := ""
						if len(g.frames) > 0 {
							where = g.frames[len(g.frames)-1].fn.String()
						}
						if j == st.cur && len(st.frames) > 0 {
							where = st.frames[len(st.frames)-1].fn.String()
						}
						desc += fmt.Sprintf(" | g%d done=%v blocked=%q in %s", j, g.done, g.blocked, where)
					}
					desc += fmt.Sprintf(" | locks=%v", st.locks)
				}
				e.violation(st, "deadlock", desc)
			}
			e.sol.Done()
		}
		e.kill("deadlock")
	}
	pick := cands[len(cands)-1]
	if e.detSched {
		pick = cands[0]
	} else {
		for _, j := range cands[:len(cands)-1] {
			if e.decide(st, st.fresh("pick", 0)) {
				pick = j
				break
			}
		}
	}
	st.trace = append(st.trace, fmt.Sprintf("run g%d", pick))
	e.switchTo(st, pick)
	panic(resched{})
}

func (e *Engine) wake(st *State, key string) {
	for _, g := range st.gs {
		if g.blocked == key {
			g.blocked = ""
		}
	}
}

func ptrKey(p Ptr) string { return fmt.Sprintf("%d:%v", p.obj, p.path) }

func (e *Engine) kill(why string) { panic(pathEnd{why}) }

func (e *Engine) feasible(st *State, c *Term) bool {
	if c.IsTrue() {
		return true
	}
	if c.IsFalse() {
		return false
	}
	r := e.sol.Check(append(append([]*Term(nil), st.pc...), c))
	e.sol.Done()
	return r != "unsat"
}

func (e *Engine) feas3(st *State, c *Term) string {
	if c.IsTrue() {
		return "sat"
	}
	if c.IsFalse() {
		return "unsat"
	}
	r := e.sol.Check(append(append([]*Term(nil), st.pc...), c))
	e.sol.Done()
	return r
}

// decide resolves a symbolic condition, forking the state if both outcomes are feasible.
func (e *Engine) decide(st *State, cond *Term) bool {
	if cond.IsTrue() {
		return true
	}
	if cond.IsFalse() {
		return false
	}
	if len(st.replay) > 0 {
		d := st.replay[0]
		st.replay = st.replay[1:]
		st.log = append(st.log, d)
		if d {
			st.pc = append(st.pc, cond)
		} else {
			st.pc = append(st.pc, Not(cond))
		}
		return d
	}
	rt := e.feas3(st, cond)
	rf := e.feas3(st, Not(cond))
	// a side the solver cannot decide is followed only if the other side is infeasible (then it is implied). If the other
	// side is feasible the undecided side is dropped and counted: the run is then reported as incomplete (INCONCLUSIVE), never
	// as success - carrying an undecided constraint along makes every later query of the path undecided too, for hours.
	if rt == "unknown" && rf == "unknown" {
		e.kill("incomplete: both sides of a branch undecided by the solver @" + e.site(st))
	}
	if rt == "unknown" && rf == "sat" {
		e.incomplete["undecided branch side dropped @"+e.site(st)]++
		rt = "unsat"
	}
	if rf == "unknown" && rt == "sat" {
		e.incomplete["undecided branch side dropped @"+e.site(st)]++
		rf = "unsat"
	}
	tf, ff := rt != "unsat", rf != "unsat"
	switch {
	case tf && ff:
		st.forkDepth++
		base := st.forkHash
		st.forkHash = base*1000003 + 1
		keepSt, keepAlt := true, true
		if e.shardN > 1 && st.forkDepth == e.shardDepth {
			keepSt = int(st.forkHash%uint64(e.shardN)) == e.shard
			keepAlt = int((base*1000003+2)%uint64(e.shardN)) == e.shard
		}
		if !keepAlt {
			if !keepSt {
				e.kill("sharded out")
			}
			st.log = append(st.log, true)
			st.pc = append(st.pc, cond)
			return true
		}
		alt := st.clone()
		st.undoInto(alt)
		alt.forkHash = base*1000003 + 2
		alt.pc = alt.pc[:st.pcMark]
		alt.nvars = st.nvarsMark
		alt.named = alt.named[:st.namedMark]
		alt.tags = alt.tags[:st.namedMark]
		alt.trace = alt.trace[:st.traceMark]
		alt.replay = append(append([]bool(nil), st.log...), false)
		e.work = append(e.work, alt)
		e.forks++
		if !keepSt {
			e.kill("sharded out")
		}
		st.log = append(st.log, true)
		st.pc = append(st.pc, cond)
		return true
	case tf:
		st.log = append(st.log, true)
		return true
	case ff:
		st.log = append(st.log, false)
		return false
	}
	e.kill("infeasible")
	return false
}

func (e *Engine) violation(st *State, kind, id string) {
	key := kind + ":" + id
	e.vcount[key]++
	e.vtraces[key] = append(e.vtraces[key], fmt.Sprint(st.trace))
	if _, ok := e.violations[key]; ok {
		return
	}
	v := &Violation{id: id, kind: kind, trace: append([]string(nil), st.trace...), model: map[string]uint64{}}
	vals := e.sol.Values(st.named)
	for i, t := range st.named {
		v.model[t.name] = vals[i]
		if t.w == -1 {
			if v.rats == nil {
				v.rats = map[string]string{}
			}
			v.rats[t.name] = LastRats[t.name]
		}
		v.order = append(v.order, t.name)
	}
	e.violations[key] = v
}

// assertTrue checks cond on the current path; records a violation if it can be false.
func (e *Engine) assertTrue(st *State, cond *Term, kind, id string) {
	if cond.IsTrue() {
		return
	}
	r := e.sol.Check(append(append([]*Term(nil), st.pc...), Not(cond)))
	if r == "sat" {
		e.violation(st, kind, id)
	}
	e.sol.Done()
	if r == "unknown" {
		e.incomplete["unknown:"+id]++
	}
	if !e.feasible(st, cond) {
		return // fails on every value of this path: recorded above, the path goes on unconstrained
	}
	st.pc = append(st.pc, cond)
}

func (e *Engine) goPanic(st *State, msg string) {
	// runtime failure or explicit panic on a feasible path
	full := msg + " @" + e.site(st)
	// can any frame of this goroutine still run a deferred call (and possibly recover)?
	for _, fr := range st.frames {
		if len(fr.defers) > 0 {
			g := st.gs[st.cur]
			g.panicMsg = full
			g.unwindPaused = false
			panic(resched{})
		}
	}
	e.uncaught(st, full)
}

var srcCache = map[string][]string{}
var overlaySrc = map[string][]byte{}

func srcLine(file string, line int) string {
	ls, ok := srcCache[file]
	if !ok {
		b, have := overlaySrc[file]
		if !have {
			b, _ = os.ReadFile(file)
		}
		ls = strings.Split(string(b), "\n")
		srcCache[file] = ls
	}
	if line-1 < len(ls) && line >= 1 {
		return strings.Join(strings.Fields(ls[line-1]), " ")
	}
	return ""
}

// site names the place of a run-time failure in a way that survives line shifts: the innermost frame in the code
// under test (not a harness file, not a library), as "pkg.Func `source line text`", followed by file:line for display.
func (e *Engine) site(st *State) string {
	pick := -1
	for i := len(st.frames) - 1; i >= 0; i-- {
		f := st.frames[i]
		if f.fn.Pkg == e.pkg && f.ip < len(f.blk.Instrs) {
			ps := e.prog.Fset.Position(f.blk.Instrs[f.ip].Pos())
			if ps.IsValid() && !strings.Contains(ps.Filename, "zz_verif_") {
				pick = i
				break
			}
		}
	}
	if pick < 0 {
		pick = len(st.frames) - 1
	}
	f := st.frames[pick]
	var ps token.Position
	if f.ip < len(f.blk.Instrs) {
		ps = e.prog.Fset.Position(f.blk.Instrs[f.ip].Pos())
	}
	if !ps.IsValid() { // instructions without a position (implicit loads): use the nearest earlier one in the block
		for k := f.ip; k >= 0 && k < len(f.blk.Instrs); k-- {
			if p := f.blk.Instrs[k].Pos(); p.IsValid() {
				ps = e.prog.Fset.Position(p)
				break
			}
		}
	}
	inner := ""
	if pick != len(st.frames)-1 && os.Getenv("SYMGO_INNER") != "" {
		inner = " <in " + st.frames[len(st.frames)-1].fn.String() + ">"
	}
	return fmt.Sprintf("%s `%s`%s (%s:%d)", f.fn.String(), srcLine(ps.Filename, ps.Line), inner, filepath.Base(ps.Filename), ps.Line)
}

func (e *Engine) uncaught(st *State, full string) {
	r := e.sol.Check(st.pc)
	if r == "sat" {
		e.violation(st, "panic", full)
	}
	e.sol.Done()
	e.kill("panic: " + full)
}

// unwindStep performs one step of Go's panic unwinding: run the next deferred call of the top frame, or pop the frame.
func (e *Engine) unwindStep(st *State) {
	g := st.gs[st.cur]
	if len(st.frames) == 0 {
		e.uncaught(st, g.panicMsg)
	}
	f := st.top()
	if len(f.defers) > 0 {
		d := f.defers[len(f.defers)-1]
		if e.intrinsic(st, d.fn.(Func), d.args, nil) {
			f.defers = f.defers[:len(f.defers)-1]
			return
		}
		f.defers = f.defers[:len(f.defers)-1]
		e.pushCall(st, d.fn.(Func), d.args, nil)
		st.top().deferForPanic = true
		g.unwindPaused = true
		return
	}
	st.frames = st.frames[:len(st.frames)-1]
	if len(st.frames) == 0 {
		e.uncaught(st, g.panicMsg)
	}
}

func (e *Engine) constVal(c *ssa.Const) Value {
	t := c.Type()
	if c.Value == nil {
		return zero(t)
	}
	if b, ok := t.Underlying().(*types.Basic); ok {
		switch {
		case b.Info()&types.IsString != 0:
			s := constant.StringVal(c.Value)
			r := Str{b: make([]*Term, len(s))}
			for i := 0; i < len(s); i++ {
				r.b[i] = BV(8, uint64(s[i]))
			}
			return r
		case b.Info()&types.IsBoolean != 0:
			return Bool(constant.BoolVal(c.Value))
		case b.Info()&types.IsFloat != 0:
			f, _ := constant.Float64Val(constant.ToFloat(c.Value))
			return FConst(f)
		case b.Info()&types.IsInteger != 0:
			w, _, _ := intWidth(t)
			if i, ok := constant.Int64Val(constant.ToInt(c.Value)); ok {
				return BV(w, uint64(i))
			}
			u, _ := constant.Uint64Val(constant.ToInt(c.Value))
			return BV(w, u)
		}
	}
	panic("constVal: unsupported " + c.String())
}

func (e *Engine) get(st *State, v ssa.Value) Value {
	switch x := v.(type) {
	case *ssa.Const:
		return e.constVal(x)
	case *ssa.Function:
		return Func{fn: x}
	case *ssa.Builtin:
		return Func{builtin: x.Name()}
	case *ssa.Global:
		return e.global(st, x)
	}
	f := st.top()
	r, ok := f.env[v]
	if !ok {
		panic(fmt.Sprintf("unbound value %s in %s", v.Name(), f.fn))
	}
	return r
}

var globals = map[*ssa.Global]int{}

func (e *Engine) global(st *State, g *ssa.Global) Value {
	id, ok := globals[g]
	if !ok {
		// prototype: foreign globals are zero (the real engine fails loud or runs an allow-listed init)
		e.incomplete["note: uninitialised foreign global "+g.String()]++
		id = st.alloc(zero(g.Type().Underlying().(*types.Pointer).Elem()))
		globals[g] = id
		st.jHeapLen = len(st.heap)
		e.lazyGlobals = append(e.lazyGlobals, id)
	}
	if id >= len(st.heap) {
		e.kill("incomplete: lazily created global not present in this state")
	}
	return Ptr{obj: id}
}

func (e *Engine) pushCall(st *State, fv Func, args []Value, call ssa.Value) {
	fn := fv.fn
	if fn == nil {
		e.goPanic(st, "call of nil func")
	}
	if fn.Blocks == nil {
		st.incomplete = "no body: " + fn.String()
		e.kill("incomplete: no body " + fn.String())
	}
	e.funcs[fn.String()] = true
	fr := &Frame{fn: fn, blk: fn.Blocks[0], env: map[ssa.Value]Value{}, call: call}
	for i, p := range fn.Params {
		fr.env[p] = args[i]
	}
	for i, fv2 := range fn.FreeVars {
		fr.env[fv2] = fv.bind[i]
	}
	st.frames = append(st.frames, fr)
}

func (e *Engine) ret(st *State, res Value) {
	f := st.top()
	st.frames = st.frames[:len(st.frames)-1]
	if f.deferForPanic {
		g := st.gs[st.cur]
		g.unwindPaused = false
		if g.recovered {
			g.recovered = false
			if len(st.frames) > 0 {
				st.top().recovering = true
			}
		}
		return
	}
	if f.onRet != "" {
		st.setCovered(f.onRet + ":done")
		if st.race != nil {
			st.race.release(st.cur, f.onRet)
		}
		e.wake(st, f.onRet)
	}
	if len(st.frames) == 0 {
		if st.pureRoot {
			st.pureResult = res
			e.kill("pure-done")
		}
		if st.cur == 0 {
			e.kill("done")
		}
		st.gs[st.cur].done = true
		st.gs[st.cur].frames = nil
		panic(resched{}) // the next step starts with a yield (no decisions after this mutation)
	}
	if f.call != nil {
		st.top().env[f.call] = res
	}
}

func (e *Engine) step(st *State) {
	if st.gs[st.cur].done {
		st.beginStep()
		e.yield(st)
	}
	if g := st.gs[st.cur]; g.panicMsg != "" && !g.unwindPaused {
		st.beginStep()
		e.unwindStep(st)
		return
	}
	if len(st.frames) > 0 && st.top().recovering {
		f := st.top()
		if len(f.defers) > 0 {
			d := f.defers[len(f.defers)-1]
			if e.intrinsic(st, d.fn.(Func), d.args, nil) {
				f.defers = f.defers[:len(f.defers)-1]
				return
			}
			f.defers = f.defers[:len(f.defers)-1]
			e.pushCall(st, d.fn.(Func), d.args, nil)
			return
		}
		f.recovering = false
		if f.fn.Recover != nil {
			f.prev = f.blk
			f.blk = f.fn.Recover
			f.ip = 0
			return
		}
		e.ret(st, zero(f.fn.Signature.Results()))
		return
	}
	if len(st.frames) == 0 {
		msg := fmt.Sprintf("no frames: cur=%d trace=%v", st.cur, st.trace)
		for i, g := range st.gs {
			msg += fmt.Sprintf(" g%d{done=%v blocked=%q frames=%d}", i, g.done, g.blocked, len(g.frames))
		}
		panic(msg)
	}
	f := st.top()
	in := f.blk.Instrs[f.ip]
	st.beginStep()
	st.steps++
	e.steps++
	switch x := in.(type) {
	case *ssa.DebugRef:
	case *ssa.Alloc:
		id := st.alloc(zero(x.Type().Underlying().(*types.Pointer).Elem()))
		f.env[x] = Ptr{obj: id}
	case *ssa.Store:
		p := e.deref(st, e.get(st, x.Addr).(Ptr), "store")
		e.acc(st, p.obj, p.path, true)
		st.store(p, e.get(st, x.Val))
	case *ssa.UnOp:
		f.env[x] = e.unop(st, x)
	case *ssa.BinOp:
		f.env[x] = e.binop(st, x.Op, e.get(st, x.X), e.get(st, x.Y), x.X.Type())
	case *ssa.FieldAddr:
		p := e.deref(st, e.get(st, x.X).(Ptr), "field")
		f.env[x] = Ptr{obj: p.obj, path: append(append([]int(nil), p.path...), x.Field)}
	case *ssa.Field:
		f.env[x] = e.get(st, x.X).(Struct).f[x.Field]
	case *ssa.IndexAddr:
		f.env[x] = e.indexAddr(st, x)
	case *ssa.Index:
		f.env[x] = e.index(st, x)
	case *ssa.Slice:
		f.env[x] = e.slice(st, x)
	case *ssa.Lookup:
		f.env[x] = e.lookup(st, x)
	case *ssa.MapUpdate:
		e.mapUpdate(st, x)
	case *ssa.MakeMap:
		f.env[x] = MapRef{obj: st.alloc(&MapData{})}
	case *ssa.MakeSlice:
		if lt := e.get(st, x.Len).(*Term); !lt.IsConst() {
			if e.decide(st, Cmp("bvslt", lt, BV(lt.w, 0))) {
				e.goPanic(st, "makeslice: len out of range")
			}
		}
		n := e.concrete(st, e.get(st, x.Len).(*Term))
		c := e.concrete(st, e.get(st, x.Cap).(*Term))
		et := x.Type().Underlying().(*types.Slice).Elem()
		a := Array{e: make([]Value, c)}
		for i := range a.e {
			a.e[i] = zero(et)
		}
		f.env[x] = Slice{arr: st.alloc(a), len: n, cap: c}
	case *ssa.MakeChan:
		f.env[x] = Ptr{obj: st.alloc(&ChanObj{cap: e.concrete(st, e.get(st, x.Size).(*Term))})}
	case *ssa.Send:
		p := e.get(st, x.Chan).(Ptr)
		c := st.heap[p.obj].(*ChanObj)
		if c.closed || len(c.buf) < c.cap { // about to block anyway: the choice of who runs next is made by block()
			e.schedPoint(st)
		}
		if c.closed {
			e.goPanic(st, "send on closed channel")
		}
		if c.cap == 0 {
			// unbuffered: the value is deposited (at most one at a time) and the sender waits until a receiver has taken it
			g := st.gs[st.cur]
			if g.sendTicket == 0 {
				if len(c.buf) > 0 {
					e.block(st, "chan:"+ptrKey(p)) // another sender's value is waiting to be taken
				}
				nc := &ChanObj{buf: []Value{e.get(st, x.X)}, cap: 0, sent: c.sent + 1, recvd: c.recvd}
				st.setHeap(p.obj, nc)
				g.sendTicket = nc.sent
				e.wake(st, "chan:"+ptrKey(p))
				e.wake(st, "select")
				if st.race != nil {
					st.race.release(st.cur, "chan:"+ptrKey(p))
				}
				e.block(st, "chan:"+ptrKey(p))
			}
			if c.recvd < g.sendTicket {
				e.block(st, "chan:"+ptrKey(p))
			}
			g.sendTicket = 0
			break
		}
		if len(c.buf) >= c.cap {
			e.block(st, "chan:"+ptrKey(p))
		}
		st.setHeap(p.obj, &ChanObj{buf: append(append([]Value(nil), c.buf...), e.get(st, x.X)), cap: c.cap, sent: c.sent, recvd: c.recvd})
		e.wake(st, "chan:"+ptrKey(p))
		e.wake(st, "select")
		if st.race != nil {
			st.race.release(st.cur, "chan:"+ptrKey(p))
		}
	case *ssa.Select:
		ready := -1
		var readyAll []int
		for i, s := range x.States {
			p := e.get(st, s.Chan).(Ptr)
			if p.obj == 0 {
				continue
			}
			c := st.heap[p.obj].(*ChanObj)
			if s.Dir == types.RecvOnly && (len(c.buf) > 0 || c.closed) {
				readyAll = append(readyAll, i)
			}
			if s.Dir == types.SendOnly && len(c.buf) < c.cap {
				readyAll = append(readyAll, i)
			}
			if s.Dir == types.SendOnly && c.cap == 0 {
				e.kill("incomplete: send on an unbuffered channel in select (rendezvous is not modelled)")
			}
		}
		if len(readyAll) > 0 || !x.Blocking {
			e.schedPoint(st)
		}
		if len(readyAll) > 0 {
			// Go chooses among the ready cases pseudo-randomly: symbolic choice
			ready = readyAll[len(readyAll)-1]
			for _, i := range readyAll[:len(readyAll)-1] {
				if e.decide(st, st.fresh("selcase", 0)) {
					ready = i
					break
				}
			}
		}
		if ready < 0 {
			if x.Blocking {
				e.block(st, "select")
			}
			tu := Tuple{e: []Value{BV(64, ^uint64(0)), Bool(false)}}
			for _, s := range x.States {
				if s.Dir == types.RecvOnly {
					tu.e = append(tu.e, zero(s.Chan.Type().Underlying().(*types.Chan).Elem()))
				}
			}
			f.env[x] = tu
		} else {
			s := x.States[ready]
			p := e.get(st, s.Chan).(Ptr)
			c := st.heap[p.obj].(*ChanObj)
			if st.race != nil {
				if s.Dir == types.RecvOnly {
					st.race.acquire(st.cur, "chan:"+ptrKey(p))
				} else {
					st.race.release(st.cur, "chan:"+ptrKey(p))
				}
			}
			tu := Tuple{e: []Value{BV(64, uint64(ready)), Bool(true)}}
			var got Value
			if s.Dir == types.RecvOnly {
				if len(c.buf) > 0 {
					got = c.buf[0]
					st.setHeap(p.obj, &ChanObj{buf: append([]Value(nil), c.buf[1:]...), cap: c.cap, closed: c.closed, sent: c.sent, recvd: c.recvd + 1})
				} else {
					got = zero(s.Chan.Type().Underlying().(*types.Chan).Elem())
					tu.e[1] = Bool(false)
				}
			} else {
				st.setHeap(p.obj, &ChanObj{buf: append(append([]Value(nil), c.buf...), e.get(st, s.Send)), cap: c.cap, closed: c.closed, sent: c.sent, recvd: c.recvd})
			}
			for i, s2 := range x.States {
				if s2.Dir == types.RecvOnly {
					if i == ready {
						tu.e = append(tu.e, got)
					} else {
						tu.e = append(tu.e, zero(s2.Chan.Type().Underlying().(*types.Chan).Elem()))
					}
				}
			}
			f.env[x] = tu
			e.wake(st, "chan:"+ptrKey(p))
			e.wake(st, "select")
		}
	case *ssa.MakeInterface:
		f.env[x] = Iface{t: x.X.Type(), v: e.get(st, x.X)}
	case *ssa.MakeClosure:
		fv := Func{fn: x.Fn.(*ssa.Function)}
		for _, b := range x.Bindings {
			fv.bind = append(fv.bind, e.get(st, b))
		}
		f.env[x] = fv
	case *ssa.ChangeType:
		f.env[x] = e.get(st, x.X)
	case *ssa.ChangeInterface:
		f.env[x] = e.get(st, x.X)
	case *ssa.Convert:
		f.env[x] = e.convert(st, x)
	case *ssa.TypeAssert:
		f.env[x] = e.typeAssert(st, x)
	case *ssa.Extract:
		f.env[x] = e.get(st, x.Tuple).(Tuple).e[x.Index]
	case *ssa.Phi:
		for i, p := range f.blk.Preds {
			if p == f.prev {
				f.env[x] = e.get(st, x.Edges[i])
			}
		}
	case *ssa.Range:
		f.env[x] = e.rangeInit(st, x)
	case *ssa.Next:
		f.env[x] = e.next(st, x)
	case *ssa.Jump:
		e.jump(st, f, f.blk.Succs[0])
		return
	case *ssa.If:
		c := e.get(st, x.Cond).(*Term)
		if e.decide(st, c) {
			e.jump(st, f, f.blk.Succs[0])
		} else {
			e.jump(st, f, f.blk.Succs[1])
		}
		return
	case *ssa.Return:
		var res Value
		switch len(x.Results) {
		case 0:
		case 1:
			res = e.get(st, x.Results[0])
		default:
			t := Tuple{}
			for _, r := range x.Results {
				t.e = append(t.e, e.get(st, r))
			}
			res = t
		}
		e.ret(st, res)
		return
	case *ssa.Panic:
		e.goPanic(st, "explicit panic")
	case *ssa.Go:
		st.goroutines++
		gf, gargs := e.callee(st, &x.Call)
		saved := st.frames
		st.frames = nil
		e.pushCall(st, gf, gargs, nil)
		st.gs = append(st.gs, &G{frames: st.frames})
		st.frames = saved
		if st.race != nil {
			st.race.spawn(st.cur)
		}
	case *ssa.Defer:
		dfn, dargs := e.callee(st, &x.Call)
		f.defers = append(f.defers, deferred{fn: dfn, args: dargs})
	case *ssa.RunDefers:
		if len(f.defers) > 0 {
			d := f.defers[len(f.defers)-1]
			// an intrinsic may yield (scheduling point): pop the entry only after it has completed
			if e.intrinsic(st, d.fn.(Func), d.args, nil) {
				f.defers = f.defers[:len(f.defers)-1]
				return // stay on RunDefers
			}
			f.defers = f.defers[:len(f.defers)-1]
			e.pushCall(st, d.fn.(Func), d.args, nil)
			return // re-execute RunDefers after the deferred call returns
		}
	case *ssa.Call:
		if e.call(st, x) {
			return
		}
	default:
		e.kill(fmt.Sprintf("incomplete: instruction %T", in))
	}
	f.ip++
}

func (e *Engine) jump(st *State, f *Frame, to *ssa.BasicBlock) {
	// back edge => loop counter
	if to.Index <= f.blk.Index {
		if f.loops == nil {
			f.loops = map[*ssa.BasicBlock]int{}
		}
		f.loops[to]++
		for blk := range f.loops { // re-entering an outer loop body starts its inner loops afresh
			if blk.Index > to.Index {
				delete(f.loops, blk)
			}
		}
		if f.loops[to] > e.maxLoop {
			e.maxLoop = f.loops[to]
		}
		if f.loops[to] > e.loopBound {
			// the path is incomplete in any case. It is also a CANDIDATE for non-termination: recorded as a hang with the values
			// of this path, so that the check replays it natively - reported only if the native run really never ends (the
			// test watchdog fires); a loop that is merely longer than the bound finishes natively and is not reported.
			if !e.noHangCandidates && (strings.HasPrefix(f.fn.String(), "(*"+e.modPrefix) || strings.HasPrefix(f.fn.String(), e.modPrefix)) && !strings.Contains(f.fn.Name(), "verif") {
				e.violation(st, "deadlock", "loop exceeds the unwinding bound (possible non-termination) in "+f.fn.String())
			}
			e.kill("incomplete: unwinding bound at " + f.fn.String())
		}
	}
	f.prev = f.blk
	f.blk = to
	f.ip = 0
}

func (st *State) arrOf(s Slice) Array { return getPath(st.heap[s.arr], s.apath).(Array) }
func (st *State) setArr(s Slice, a Array) {
	st.setHeap(s.arr, setPath(st.heap[s.arr], s.apath, a))
}
func elemPtr(s Slice, i int) Ptr {
	return Ptr{obj: s.arr, path: append(append([]int(nil), s.apath...), s.off+i)}
}

func (e *Engine) pos(st *State) string {
	for i := len(st.frames) - 1; i >= 0; i-- {
		f := st.frames[i]
		if f.ip < len(f.blk.Instrs) {
			if p := f.blk.Instrs[f.ip].Pos(); p.IsValid() {
				ps := e.prog.Fset.Position(p)
				return fmt.Sprintf("%s:%d", ps.Filename, ps.Line)
			}
		}
	}
	return "?"
}

// stablePos names the innermost source position in a way that survives line shifts: "pkg.Func `source line text`"
func (e *Engine) stablePos(st *State) string {
	for i := len(st.frames) - 1; i >= 0; i-- {
		f := st.frames[i]
		if f.ip < len(f.blk.Instrs) {
			if p := f.blk.Instrs[f.ip].Pos(); p.IsValid() {
				ps := e.prog.Fset.Position(p)
				return fmt.Sprintf("%s `%s`", f.fn.String(), srcLine(ps.Filename, ps.Line))
			}
		}
	}
	return "?"
}

func (e *Engine) acc(st *State, obj int, path []int, write bool) {
	if st.race == nil || e.pureDepth > 0 {
		return
	}
	if r := st.race.access(st.cur, obj, path, write, e.stablePos(st)); r != "" {
		rr := e.sol.Check(st.pc)
		if rr == "sat" {
			key := r
			if i := strings.Index(r, " by g"); i > 0 {
				key = r
			}
			e.violation(st, "race", normRace(key))
		}
		e.sol.Done()
	}
}

var gnum = regexp.MustCompile(`g[0-9]+`)

func normRace(s string) string { return gnum.ReplaceAllString(s, "g") }

// deref resolves the nil-ness of a (possibly guarded) pointer; panics the path on nil
func (e *Engine) deref(st *State, p Ptr, what string) Ptr {
	if p.obj == 0 {
		e.goPanic(st, "nil dereference ("+what+")")
	}
	if p.nilc != nil {
		if e.pureDepth > 0 && e.lenient {
			return p
		}
		if !e.decide(st, Not(p.nilc)) {
			e.goPanic(st, "nil dereference ("+what+")")
		}
		p.nilc = nil
	}
	return p
}

func (e *Engine) concrete(st *State, t *Term) int {
	if t.IsConst() {
		return int(sext64(t.val, t.w))
	}
	// fork over feasible small values
	for v := 0; v < 64; v++ {
		if e.decide(st, Eq(t, BV(t.w, uint64(v)))) {
			return v
		}
	}
	e.kill("incomplete: concretisation range exceeded")
	return 0
}

func (e *Engine) unop(st *State, x *ssa.UnOp) Value {
	v := e.get(st, x.X)
	switch x.Op {
	case token.MUL:
		p := e.deref(st, v.(Ptr), "load")
		e.acc(st, p.obj, p.path, false)
		return st.load(p)
	case token.ARROW:
		p := v.(Ptr)
		if p.obj == 0 {
			e.block(st, "nilchan")
		}
		c := st.heap[p.obj].(*ChanObj)
		if len(c.buf) > 0 || c.closed {
			e.schedPoint(st)
		}
		et := x.X.Type().Underlying().(*types.Chan).Elem()
		var r Value
		ok := true
		if st.race != nil && (len(c.buf) > 0 || c.closed) {
			st.race.acquire(st.cur, "chan:"+ptrKey(p))
		}
		if len(c.buf) > 0 {
			r = c.buf[0]
			st.setHeap(p.obj, &ChanObj{buf: append([]Value(nil), c.buf[1:]...), cap: c.cap, closed: c.closed, sent: c.sent, recvd: c.recvd + 1})
			e.wake(st, "chan:"+ptrKey(p))
		} else if c.closed {
			r, ok = zero(et), false
		} else {
			e.block(st, "chan:"+ptrKey(p))
		}
		if x.CommaOk {
			return Tuple{e: []Value{r, Bool(ok)}}
		}
		return r
	case token.NOT:
		return Not(v.(*Term))
	case token.SUB:
		return BvNeg(v.(*Term))
	case token.XOR:
		return BvNot(v.(*Term))
	}
	e.kill("incomplete: unop " + x.Op.String())
	return nil
}

func (e *Engine) binop(st *State, op token.Token, a, b Value, t types.Type) Value {
	switch op {
	case token.EQL:
		return eqv(a, b)
	case token.NEQ:
		return Not(eqv(a, b))
	}
	if sa, ok := a.(Str); ok {
		sb := b.(Str)
		if op == token.ADD {
			return Str{b: append(append([]*Term(nil), sa.b...), sb.b...)}
		}
		e.kill("incomplete: string op " + op.String())
	}
	x, y := a.(*Term), b.(*Term)
	if x.w == -2 {
		switch op {
		case token.ADD:
			return FBin("fp.add", x, y)
		case token.SUB:
			return FBin("fp.sub", x, y)
		case token.MUL:
			return FBin("fp.mul", x, y)
		case token.QUO:
			return FBin("fp.div", x, y)
		case token.LSS:
			return FCmp("fp.lt", x, y)
		case token.LEQ:
			return FCmp("fp.leq", x, y)
		case token.GTR:
			return FCmp("fp.lt", y, x)
		case token.GEQ:
			return FCmp("fp.leq", y, x)
		}
		e.kill("incomplete: float op " + op.String())
	}
	_, signed, _ := intWidth(t)
	if x.w == 0 {
		switch op {
		case token.AND, token.LAND:
			return And(x, y)
		case token.OR, token.LOR:
			return Or(x, y)
		}
	}
	switch op {
	case token.ADD:
		return Bin("bvadd", x, y)
	case token.SUB:
		return Bin("bvsub", x, y)
	case token.MUL:
		return Bin("bvmul", x, y)
	case token.QUO, token.REM:
		if !e.decide(st, Not(Eq(y, BV(y.w, 0)))) {
			e.goPanic(st, "division by zero")
		}
		if op == token.QUO {
			if signed {
				return Bin("bvsdiv", x, y)
			}
			return Bin("bvudiv", x, y)
		}
		if signed {
			return Bin("bvsrem", x, y)
		}
		return Bin("bvurem", x, y)
	case token.AND:
		return Bin("bvand", x, y)
	case token.OR:
		return Bin("bvor", x, y)
	case token.XOR:
		return Bin("bvxor", x, y)
	case token.AND_NOT:
		return Bin("bvand", x, BvNot(y))
	case token.SHL, token.SHR:
		// shift count may have a different width; Go: count >= width => 0 (or sign fill)
		yy := Resize(y, x.w, false)
		if y.w > x.w {
			// large counts saturate
			big := Not(Cmp("bvult", y, BV(y.w, uint64(x.w))))
			yy = Ite(big, BV(x.w, uint64(x.w)), yy)
		}
		if op == token.SHL {
			return Bin("bvshl", x, yy)
		}
		if signed {
			return Bin("bvashr", x, yy)
		}
		return Bin("bvlshr", x, yy)
	case token.LSS:
		if signed {
			return Cmp("bvslt", x, y)
		}
		return Cmp("bvult", x, y)
	case token.LEQ:
		if signed {
			return Cmp("bvsle", x, y)
		}
		return Cmp("bvule", x, y)
	case token.GTR:
		if signed {
			return Cmp("bvslt", y, x)
		}
		return Cmp("bvult", y, x)
	case token.GEQ:
		if signed {
			return Cmp("bvsle", y, x)
		}
		return Cmp("bvule", y, x)
	}
	e.kill("incomplete: binop " + op.String())
	return nil
}

func (e *Engine) indexAddr(st *State, x *ssa.IndexAddr) Value {
	base := e.get(st, x.X)
	idx := e.get(st, x.Index).(*Term)
	idx = Resize(idx, 64, true)
	switch b := base.(type) {
	case Slice:
		inb := And(Cmp("bvsle", BV(64, 0), idx), Cmp("bvslt", idx, BV(64, uint64(b.len))))
		if !e.decide(st, inb) {
			e.goPanic(st, "index out of range")
		}
		i := e.concrete(st, idx)
		return elemPtr(b, i)
	case Ptr: // pointer to array
		if b.obj == 0 {
			e.goPanic(st, "nil dereference (indexaddr)")
		}
		n := len(st.load(b).(Array).e)
		inb := And(Cmp("bvsle", BV(64, 0), idx), Cmp("bvslt", idx, BV(64, uint64(n))))
		if !e.decide(st, inb) {
			e.goPanic(st, "index out of range")
		}
		i := e.concrete(st, idx)
		return Ptr{obj: b.obj, path: append(append([]int(nil), b.path...), i)}
	}
	e.kill(fmt.Sprintf("incomplete: indexaddr on %T", base))
	return nil
}

func (e *Engine) index(st *State, x *ssa.Index) Value {
	base := e.get(st, x.X)
	idx := Resize(e.get(st, x.Index).(*Term), 64, true)
	switch b := base.(type) {
	case Array:
		inb := And(Cmp("bvsle", BV(64, 0), idx), Cmp("bvslt", idx, BV(64, uint64(len(b.e)))))
		if !e.decide(st, inb) {
			e.goPanic(st, "index out of range")
		}
		return b.e[e.concrete(st, idx)]
	case Str:
		return e.strIndex(st, b, idx)
	}
	e.kill(fmt.Sprintf("incomplete: index on %T", base))
	return nil
}

func (e *Engine) strIndex(st *State, b Str, idx *Term) Value {
	inb := And(Cmp("bvsle", BV(64, 0), idx), Cmp("bvslt", idx, BV(64, uint64(len(b.b)))))
	if !e.decide(st, inb) {
		e.goPanic(st, "index out of range")
	}
	if idx.IsConst() {
		return b.b[int(idx.val)]
	}
	if len(b.b) == 16 {
		isHex := true
		for i, c := range b.b {
			if !c.IsConst() || c.val != uint64(hexDigits[i]) {
				isHex = false
			}
		}
		if isHex {
			return HexChar(Resize(idx, 4, false)) // in range was decided above
		}
	}
	r := b.b[len(b.b)-1]
	for i := len(b.b) - 2; i >= 0; i-- {
		r = Ite(Eq(idx, BV(64, uint64(i))), b.b[i], r)
	}
	return r
}

func (e *Engine) optInt(st *State, v ssa.Value, def int) int {
	if v == nil {
		return def
	}
	return e.concrete(st, Resize(e.get(st, v).(*Term), 64, true))
}

func (e *Engine) slice(st *State, x *ssa.Slice) Value {
	base := e.get(st, x.X)
	switch b := base.(type) {
	case Slice:
		lo := e.optInt(st, x.Low, 0)
		hi := e.optInt(st, x.High, b.len)
		mx := e.optInt(st, x.Max, b.cap)
		if lo < 0 || lo > hi || hi > mx || mx > b.cap {
			e.goPanic(st, "slice bounds out of range")
		}
		if b.arr == 0 {
			return Slice{}
		}
		return Slice{arr: b.arr, apath: b.apath, off: b.off + lo, len: hi - lo, cap: mx - lo}
	case Str:
		lo := e.optInt(st, x.Low, 0)
		hi := e.optInt(st, x.High, len(b.b))
		if lo < 0 || lo > hi || hi > len(b.b) {
			e.goPanic(st, "slice bounds out of range (string)")
		}
		return Str{b: b.b[lo:hi]}
	case Ptr: // *array
		if b.obj == 0 {
			e.goPanic(st, "nil dereference (slice)")
		}
		n := len(st.load(b).(Array).e)
		lo := e.optInt(st, x.Low, 0)
		hi := e.optInt(st, x.High, n)
		mx := e.optInt(st, x.Max, n)
		if lo < 0 || lo > hi || hi > mx || mx > n {
			e.goPanic(st, "slice bounds out of range")
		}
		return Slice{arr: b.obj, apath: b.path, off: lo, len: hi - lo, cap: mx - lo}
	}
	e.kill(fmt.Sprintf("incomplete: slice on %T", base))
	return nil
}

// findEntry resolves key against the map entries, forking on symbolic equality; returns index or -1
func (e *Engine) findEntry(st *State, m *MapData, k Value) int {
	for i, en := range m.entries {
		c := eqv(en.k, k)
		if en.p != nil {
			c = And(c, en.p)
		}
		if e.decide(st, c) {
			return i
		}
	}
	return -1
}

func (e *Engine) lookup(st *State, x *ssa.Lookup) Value {
	base := e.get(st, x.X)
	if s, ok := base.(Str); ok {
		return e.strIndex(st, s, Resize(e.get(st, x.Index).(*Term), 64, true))
	}
	mr := base.(MapRef)
	e.acc(st, mr.obj, nil, false)
	vt := x.X.Type().Underlying().(*types.Map).Elem()
	var val Value
	found := false
	var foundT *Term
	if mr.obj != 0 {
		m := st.heap[mr.obj].(*MapData)
		key := e.get(st, x.Index)
		// fast path: exactly one entry can match by key and only its presence is symbolic => guarded value, no fork
		cand, ncand := -1, 0
		for i, en := range m.entries {
			if !eqv(en.k, key).IsFalse() {
				cand = i
				ncand++
			}
		}
		if ncand == 1 && eqv(m.entries[cand].k, key).IsTrue() && m.entries[cand].p != nil {
			en := m.entries[cand]
			switch vv := en.v.(type) {
			case Ptr:
				if vv.nilc == nil && vv.obj != 0 {
					vv.nilc = Not(en.p)
					val, foundT = vv, en.p
				}
			case *Term:
				val, foundT = Ite(en.p, vv, zero(vt).(*Term)), en.p
			case Struct:
				if len(vv.f) == 0 {
					val, foundT = vv, en.p
				}
			}
		}
		if foundT == nil {
			if i := e.findEntry(st, m, key); i >= 0 {
				val, found = m.entries[i].v, true
			}
		}
	}
	if foundT == nil {
		foundT = Bool(found)
		if !found {
			val = zero(vt)
		}
	}
	if x.CommaOk {
		return Tuple{e: []Value{val, foundT}}
	}
	return val
}

func (e *Engine) mapUpdate(st *State, x *ssa.MapUpdate) {
	mr := e.get(st, x.Map).(MapRef)
	if mr.obj == 0 {
		e.goPanic(st, "assignment to entry in nil map")
	}
	m := st.heap[mr.obj].(*MapData)
	k, v := e.get(st, x.Key), e.get(st, x.Value)
	i := e.findEntry(st, m, k)
	e.acc(st, mr.obj, nil, true)
	n := &MapData{entries: append([]MapEntry(nil), m.entries...)}
	if i >= 0 {
		n.entries[i].v = v
		n.entries[i].p = nil
	} else {
		n.entries = append(n.entries, MapEntry{k: k, v: v})
	}
	st.setHeap(mr.obj, n)
}

func (e *Engine) rangeInit(st *State, x *ssa.Range) Value {
	switch b := e.get(st, x.X).(type) {
	case MapRef:
		it := &RangeIter{}
		if b.obj != 0 {
			it.mp = st.heap[b.obj].(*MapData)
		} else {
			it.mp = &MapData{}
		}
		return Ptr{obj: st.alloc(it)}
	case Str:
		return Ptr{obj: st.alloc(&RangeIter{str: &b})}
	}
	e.kill("incomplete: range")
	return nil
}

func (e *Engine) next(st *State, x *ssa.Next) Value {
	p := e.get(st, x.Iter).(Ptr)
	it := st.heap[p.obj].(*RangeIter)
	n := *it
	if it.mp != nil {
		// Go leaves the iteration order unspecified: the next entry is any not yet visited one (symbolic choice)
		var cands []int
		for i := range it.mp.entries {
			seen := false
			for _, o := range it.order {
				if o == i {
					seen = true
				}
			}
			if !seen {
				cands = append(cands, i)
			}
		}
		if len(cands) == 0 {
			return Tuple{e: []Value{Bool(false), nil, nil}}
		}
		pick := cands[len(cands)-1]
		if e.mapOrder {
			for _, c := range cands[:len(cands)-1] {
				if e.decide(st, st.fresh("maporder", 0)) {
					pick = c
					break
				}
			}
		} else {
			pick = cands[0]
		}
		n.order = append(append([]int(nil), it.order...), pick)
		en := it.mp.entries[pick]
		if en.p != nil && !e.decide(st, en.p) {
			st.setHeap(p.obj, &n)
			return e.next(st, x) // absent on this path: skip it
		}
		st.setHeap(p.obj, &n)
		return Tuple{e: []Value{Bool(true), en.k, en.v}}
	}
	if it.pos >= len(it.str.b) {
		return Tuple{e: []Value{Bool(false), BV(64, 0), BV(32, 0)}}
	}
	n.pos++
	st.setHeap(p.obj, &n)
	return Tuple{e: []Value{Bool(true), BV(64, uint64(it.pos)), Resize(it.str.b[it.pos], 32, false)}}
}

func (e *Engine) convert(st *State, x *ssa.Convert) Value {
	v := e.get(st, x.X)
	from, to := x.X.Type().Underlying(), x.Type().Underlying()
	if tb, ok := to.(*types.Basic); ok && tb.Info()&types.IsString != 0 {
		switch s := v.(type) {
		case Slice: // []byte -> string
			r := Str{}
			for i := 0; i < s.len; i++ {
				r.b = append(r.b, st.arrOf(s).e[s.off+i].(*Term))
			}
			return r
		case Str:
			return s
		}
		e.kill("incomplete: convert to string from " + from.String())
	}
	if _, ok := to.(*types.Slice); ok {
		if s, ok := v.(Str); ok { // string -> []byte
			a := Array{e: make([]Value, len(s.b))}
			for i := range s.b {
				a.e[i] = s.b[i]
			}
			if len(s.b) == 0 {
				return Slice{arr: st.alloc(a)}
			}
			return Slice{arr: st.alloc(a), len: len(s.b), cap: len(s.b)}
		}
	}
	if t, ok := v.(*Term); ok {
		if tb, isB := to.(*types.Basic); isB && tb.Kind() == types.Float64 && t.w > 0 {
			_, fs, _ := intWidth(x.X.Type())
			return ToFP(t, fs)
		}
		w, _, ok2 := intWidth(x.Type())
		_, fs, _ := intWidth(x.X.Type())
		if ok2 {
			return Resize(t, w, fs)
		}
	}
	e.kill(fmt.Sprintf("incomplete: convert %s -> %s", from, to))
	return nil
}

func (e *Engine) typeAssert(st *State, x *ssa.TypeAssert) Value {
	v := e.get(st, x.X).(Iface)
	if v.t != nil && v.nilc != nil {
		if e.decide(st, v.nilc) {
			v = Iface{}
		} else {
			v.nilc = nil
		}
	}
	ok := false
	if v.t != nil {
		if it, isI := x.AssertedType.Underlying().(*types.Interface); isI {
			ok = types.Implements(v.t, it)
		} else {
			ok = types.Identical(v.t, x.AssertedType)
		}
	}
	_, toIface := x.AssertedType.Underlying().(*types.Interface)
	var res Value
	if ok {
		if toIface {
			res = v
		} else {
			res = v.v
		}
	} else {
		res = zero(x.AssertedType)
	}
	if x.CommaOk {
		return Tuple{e: []Value{res, Bool(ok)}}
	}
	if !ok {
		e.goPanic(st, "failed type assertion to "+x.AssertedType.String())
	}
	return res
}

// callee resolves the function and the argument values of a call site (static, closure or interface invoke)
func (e *Engine) callee(st *State, cc *ssa.CallCommon) (Func, []Value) {
	var args []Value
	var fv Func
	if cc.IsInvoke() {
		recv := e.get(st, cc.Value).(Iface)
		if recv.t == nil {
			e.goPanic(st, "method call on nil interface: "+cc.Method.Name())
		}
		if recv.nilc != nil {
			if !e.decide(st, Not(recv.nilc)) {
				e.goPanic(st, "method call on nil interface: "+cc.Method.Name())
			}
		}
		m := e.prog.LookupMethod(recv.t, cc.Method.Pkg(), cc.Method.Name())
		if m == nil {
			e.kill("incomplete: method lookup " + cc.Method.Name() + " on " + recv.t.String())
		}
		fv = Func{fn: m}
		args = append(args, recv.v)
	} else {
		fv = e.get(st, cc.Value).(Func)
	}
	for _, a := range cc.Args {
		args = append(args, e.get(st, a))
	}
	if fv.fn != nil {
		if to, ok := e.redirects[fv.fn.String()]; ok {
			t := e.pkg.Func(to)
			if t == nil {
				e.kill("incomplete: redirect target " + to)
			}
			fv = Func{fn: t}
		}
	}
	return fv, args
}

// call returns true if it changed the frame stack / ip itself
func (e *Engine) call(st *State, x *ssa.Call) bool {
	cc := x.Common()
	fv, args := e.callee(st, cc)
	if fv.builtin != "" {
		st.top().env[x] = e.builtin(st, fv.builtin, args, cc)
		return false
	}
	if fv.fn != nil && strings.HasPrefix(fv.fn.Name(), "verifPure_") {
		st.top().env[x] = e.pureCall(st, fv, args)
		return false
	}
	st.callPushed = false
	if e.intrinsic(st, fv, args, x) {
		return st.callPushed
	}
	st.top().ip++ // return address
	e.pushCall(st, fv, args, x)
	return true
}

func (e *Engine) builtin(st *State, name string, args []Value, cc *ssa.CallCommon) Value {
	switch name {
	case "len", "cap":
		switch a := args[0].(type) {
		case Slice:
			if name == "cap" {
				return BV(64, uint64(a.cap))
			}
			return BV(64, uint64(a.len))
		case Str:
			return BV(64, uint64(len(a.b)))
		case MapRef:
			if a.obj == 0 {
				return BV(64, 0)
			}
			n := BV(64, 0)
			for _, en := range st.heap[a.obj].(*MapData).entries {
				if en.p == nil {
					n = Bin("bvadd", n, BV(64, 1))
				} else {
					n = Bin("bvadd", n, Ite(en.p, BV(64, 1), BV(64, 0)))
				}
			}
			return n
		case Array:
			return BV(64, uint64(len(a.e)))
		case Ptr:
			if a.obj == 0 {
				return BV(64, 0)
			}
			if c, ok := st.heap[a.obj].(*ChanObj); ok {
				if name == "cap" {
					return BV(64, uint64(c.cap))
				}
				return BV(64, uint64(len(c.buf)))
			}
			if arr, ok := st.load(a).(Array); ok { // len(*[N]T)
				return BV(64, uint64(len(arr.e)))
			}
		}
	case "append":
		s := args[0].(Slice)
		var add []Value
		switch t := args[1].(type) {
		case Slice:
			for i := 0; i < t.len; i++ {
				add = append(add, st.arrOf(t).e[t.off+i])
			}
		case Str:
			for _, b := range t.b {
				add = append(add, b)
			}
		}
		if len(add) == 0 {
			return s
		}
		if s.len+len(add) <= s.cap {
			a := st.arrOf(s)
			ne := append([]Value(nil), a.e...)
			copy(ne[s.off+s.len:], add)
			st.setArr(s, Array{e: ne})
			return Slice{arr: s.arr, apath: s.apath, off: s.off, len: s.len + len(add), cap: s.cap}
		}
		var ne []Value
		if s.arr != 0 {
			a := st.arrOf(s)
			ne = append(ne, a.e[s.off:s.off+s.len]...)
		}
		ne = append(ne, add...)
		return Slice{arr: st.alloc(Array{e: ne}), len: len(ne), cap: len(ne)}
	case "clear":
		switch d := args[0].(type) {
		case Slice:
			if d.len > 0 {
				a := st.arrOf(d)
				ne := append([]Value(nil), a.e...)
				et := cc.Args[0].Type().Underlying().(*types.Slice).Elem()
				for i := 0; i < d.len; i++ {
					ne[d.off+i] = zero(et)
				}
				st.setArr(d, Array{e: ne})
			}
			return nil
		case MapRef:
			if d.obj != 0 {
				st.setHeap(d.obj, &MapData{})
			}
			return nil
		}
	case "copy":
		d := args[0].(Slice)
		var src []Value
		switch t := args[1].(type) {
		case Slice:
			for i := 0; i < t.len; i++ {
				src = append(src, st.arrOf(t).e[t.off+i])
			}
		case Str:
			for _, b := range t.b {
				src = append(src, b)
			}
		}
		n := len(src)
		if d.len < n {
			n = d.len
		}
		if n > 0 {
			a := st.arrOf(d)
			ne := append([]Value(nil), a.e...)
			copy(ne[d.off:d.off+n], src[:n])
			st.setArr(d, Array{e: ne})
		}
		return BV(64, uint64(n))
	case "recover":
		g := st.gs[st.cur]
		if g.panicMsg != "" && st.top().deferForPanic {
			g.panicMsg = ""
			g.recovered = true
			return Iface{t: types.Typ[types.String], v: Str{b: []*Term{BV(8, 'p')}}}
		}
		return Iface{}
	case "close":
		p := args[0].(Ptr)
		c := st.heap[p.obj].(*ChanObj)
		if c.closed {
			e.goPanic(st, "close of closed channel")
		}
		st.setHeap(p.obj, &ChanObj{buf: c.buf, cap: c.cap, closed: true, sent: c.sent, recvd: c.recvd})
		if st.race != nil {
			st.race.release(st.cur, "chan:"+ptrKey(p))
		}
		e.wake(st, "chan:"+ptrKey(p))
		e.wake(st, "select")
		return nil
	case "delete":
		mr := args[0].(MapRef)
		if mr.obj != 0 {
			m := st.heap[mr.obj].(*MapData)
			i := e.findEntry(st, m, args[1])
			e.acc(st, mr.obj, nil, true)
			if i >= 0 {
				n := &MapData{}
				n.entries = append(n.entries, m.entries[:i]...)
				n.entries = append(n.entries, m.entries[i+1:]...)
				st.setHeap(mr.obj, n)
			}
		}
		return nil
	}
	e.kill("incomplete: builtin " + name)
	return nil
}

// intrinsic handles engine-level functions; returns true if handled (result stored)
func (e *Engine) intrinsic(st *State, fv Func, args []Value, x *ssa.Call) bool {
	if fv.fn == nil {
		if fv.builtin != "" && x == nil { // deferred builtin (close, delete, ...)
			e.builtin(st, fv.builtin, args, nil)
			return true
		}
		return false
	}
	name := fv.fn.String()
	set := func(v Value) {
		if x != nil {
			st.top().env[x] = v
		}
	}
	short := name
	if i := strings.LastIndex(name, "."); i >= 0 {
		short = name[i+1:]
	}
	switch {
	case short == "init" && fv.fn.Pkg != e.pkg:
		// dependency initialisers are not run (fail-loud policy applies to their globals)
	case short == "vndU8":
		set(st.fresh(strOf(args[0]), 8))
	case short == "vndU16":
		set(st.fresh(strOf(args[0]), 16))
	case short == "vndU32":
		set(st.fresh(strOf(args[0]), 32))
	case short == "vndU64":
		set(st.fresh(strOf(args[0]), 64))
	case short == "vndBool":
		set(st.fresh(strOf(args[0]), 0))
	case short == "vndFNew":
		st.nvars++
		rv := RVar(fmt.Sprintf("%s#%d", strOf(args[0]), st.nvars))
		st.named = append(st.named, rv)
		st.tags = append(st.tags, strOf(args[0]))
		set(rv)
	case short == "vndFInt":
		set(RInt(sext64(args[0].(*Term).val, 64)))
	case short == "vndFAdd":
		set(RBin("+", args[0].(*Term), args[1].(*Term)))
	case short == "vndFSub":
		set(RBin("-", args[0].(*Term), args[1].(*Term)))
	case short == "vndFMul":
		set(RBin("*", args[0].(*Term), args[1].(*Term)))
	case short == "vndFInv":
		x := args[0].(*Term)
		if !e.decide(st, Not(REq(x, RInt(0)))) {
			e.goPanic(st, "inverse of zero")
		}
		set(RBin("/", RInt(1), x))
	case short == "vndFEq":
		set(REq(args[0].(*Term), args[1].(*Term)))
	case short == "vndFHash":
		s := args[1].(Slice)
		dom := strOf(args[0])
		var in []*Term
		key := dom + ":"
		for i := 0; i < s.len; i++ {
			t := st.arrOf(s).e[s.off+i].(*Term)
			in = append(in, t)
			key += fmt.Sprintf("%d,", t.id)
		}
		hv := RVar("H(" + key + ")")
		seen := false
		for _, a := range st.fhashApps {
			if a.out[0] == hv {
				seen = true
			}
		}
		if !seen {
			for _, a := range st.fhashApps {
				if a.dom != dom || len(a.in) != len(in) {
					if a.dom == dom {
						st.pc = append(st.pc, Not(REq(hv, a.out[0])))
					}
					continue
				}
				ie := Bool(true)
				for i := range in {
					ie = And(ie, Eq(a.in[i], in[i]))
				}
				st.pc = append(st.pc, Eq(ie, REq(hv, a.out[0]))) // congruence + assumed collision freeness
			}
			st.pc = append(st.pc, Not(REq(hv, RInt(0))))
			st.fhashApps = append(st.fhashApps, fhashApp{dom: dom, in: in, out: []*Term{hv}})
		}
		set(hv)
	case strings.HasPrefix(short, "vndMapOpt"):
		mr := args[0].(MapRef)
		m := st.heap[mr.obj].(*MapData)
		n := &MapData{entries: append(append([]MapEntry(nil), m.entries...), MapEntry{k: args[1], v: args[2], p: args[3].(*Term)})}
		st.setHeap(mr.obj, n)
	case strings.HasPrefix(short, "vndOpt"):
		switch a := args[0].(type) {
		case Iface:
			a.nilc = Not(args[1].(*Term))
			set(a)
		case Ptr:
			a.nilc = Not(args[1].(*Term))
			set(a)
		}
	case short == "vndAnd":
		set(And(args[0].(*Term), args[1].(*Term)))
	case short == "vndOr":
		set(Or(args[0].(*Term), args[1].(*Term)))
	case short == "vndImplies":
		set(Or(Not(args[0].(*Term)), args[1].(*Term)))
	case short == "vndSpawn":
		saved := st.frames
		st.frames = nil
		e.pushCall(st, args[0].(Func), nil, nil)
		st.gs = append(st.gs, &G{frames: st.frames})
		st.frames = saved
		st.goroutines++
		if st.race != nil {
			st.race.spawn(st.cur)
		}
		st.trace = append(st.trace, fmt.Sprintf("spawn g%d", len(st.gs)-1))
	case short == "verifYield":
		// native replays only (schedule enforcement); nothing to do symbolically
	case short == "vndYield":
		// any other runnable goroutine may run now (a voluntary switch: not counted against the preemption bound)
		g := st.gs[st.cur]
		if g.resumed {
			g.resumed = false
			break
		}
		for j := range st.gs {
			if j == st.cur || !e.runnable(st, j) {
				continue
			}
			if e.decide(st, st.fresh("sched", 0)) {
				st.trace = append(st.trace, fmt.Sprintf("yield g%d->g%d", st.cur, j))
				g.resumed = true
				e.switchTo(st, j)
				panic(resched{})
			}
		}
	case name == "time.Sleep":
		g := st.gs[st.cur]
		if g.quiesced {
			g.quiesced = false
		} else {
			g.quiesced = true
			e.block(st, "sleep")
		}
	case short == "vndQuiescence":
		g := st.gs[st.cur]
		if g.quiesced {
			g.quiesced = false
		} else {
			g.quiesced = true
			e.block(st, "quiesce")
		}
	case short == "vndBlob":
		kind := strOf(args[0])
		a := Array{e: []Value{TagByte(kind, args[1].(*Term), 0), TagByte(kind, args[1].(*Term), 1)}}
		set(Slice{arr: st.alloc(a), len: 2, cap: 2})
	case short == "vndUnblob":
		kind := strOf(args[0])
		s := args[1].(Slice)
		ok := s.len == 2
		var el *Term
		if ok {
			for i := 0; i < 2; i++ {
				c := st.arrOf(s).e[s.off+i].(*Term)
				if c.op != "tagbyte" || (c.name != kind && c.name != "any") || c.x != i || (el != nil && c.args[0] != el) {
					ok = false
					break
				}
				el = c.args[0]
			}
		}
		if !ok {
			set(Tuple{e: []Value{RInt(0), Bool(false)}})
		} else {
			set(Tuple{e: []Value{el, Bool(true)}})
		}
	case name == "crypto/sha256.Sum256":
		s := args[0].(Slice)
		var in []*Term
		for i := 0; i < s.len; i++ {
			in = append(in, st.arrOf(s).e[s.off+i].(*Term))
		}
		out := e.sha(st, in)
		a := Array{e: make([]Value, 32)}
		for i := range a.e {
			a.e[i] = out[i]
		}
		set(a)
	case name == "encoding/asn1.Marshal":
		set(e.asn1Marshal(st, args[0]))
	case name == "encoding/asn1.Unmarshal":
		set(e.asn1Unmarshal(st, args[0].(Slice), args[1]))
	case name == "(*sync.Cond).Signal" || name == "(*sync.Cond).Broadcast":
		e.wake(st, "cond:"+ptrKey(args[0].(Ptr)))
		if st.race != nil {
			st.race.release(st.cur, "cond:"+ptrKey(args[0].(Ptr)))
		}
	case name == "(*sync.Cond).Wait":
		p := args[0].(Ptr)
		L := st.load(p).(Struct).f[1].(Iface).v.(Ptr)
		mkey := "mu:" + ptrKey(L)
		g := st.gs[st.cur]
		l := st.locks[mkey]
		if g.condPhase == 0 {
			// a preemption point although the call blocks: what another goroutine does between the caller's last check and
			// its parking matters when that goroutine signals without the mutex (a lost wake-up)
			e.schedPoint(st)
			if !l.writer {
				e.goPanic(st, "sync: unlock of unlocked mutex (Cond.Wait)")
			}
			l.writer = false
			st.setLock(mkey, l)
			e.wake(st, mkey)
			if st.race != nil {
				st.race.release(st.cur, mkey)
			}
			g.condPhase = 1
			e.block(st, "cond:"+ptrKey(p))
		}
		if l.writer || l.readers > 0 {
			e.block(st, mkey)
		}
		l.writer = true
		st.setLock(mkey, l)
		g.condPhase = 0
		if st.race != nil {
			st.race.acquire(st.cur, mkey)
			st.race.acquire(st.cur, "cond:"+ptrKey(p))
		}
	case short == "vndChoose":
		// n-way choice as a chain of Boolean decisions (no bit-vector variable: keeps algebra queries in pure QF_NRA);
		// the chosen index is recorded for the tape as a constant
		n := e.concrete(st, args[1].(*Term))
		tag := strOf(args[0])
		r := n - 1
		for i := 0; i < n-1; i++ {
			if e.decide(st, st.fresh("choosebit", 0)) {
				r = i
				break
			}
		}
		st.named = append(st.named, intern(&Term{op: "const", w: 8, val: uint64(r), name: fmt.Sprintf("%s#%d", tag, st.nvars)}))
		st.tags = append(st.tags, tag)
		st.trace = append(st.trace, fmt.Sprintf("%s=%d", tag, r))
		set(BV(64, uint64(r)))
	case short == "vndAssume":
		c := args[0].(*Term)
		if !e.feasible(st, c) {
			e.kill("assume false")
		}
		st.pc = append(st.pc, c)
	case short == "vndAssert":
		e.assertTrue(st, args[0].(*Term), "assert", strOf(args[1]))
	case short == "vndCover":
		id := strOf(args[0])
		if !st.covered[id] {
			st.setCovered(id)
			e.covers[id]++
			if _, have := e.coverModels[id]; !have {
				if r := e.sol.Check(st.pc); r == "sat" {
					v := &Violation{id: id, kind: "cover", trace: append([]string(nil), st.trace...), model: map[string]uint64{}}
					vals := e.sol.Values(st.named)
					for i, t := range st.named {
						v.model[t.name] = vals[i]
						if t.w == -1 {
							if v.rats == nil {
								v.rats = map[string]string{}
							}
							v.rats[t.name] = LastRats[t.name]
						}
						v.order = append(v.order, t.name)
					}
					e.coverModels[id] = v
				}
				e.sol.Done()
			}
		}
	case strings.HasPrefix(name, "(*sync.RWMutex).") || strings.HasPrefix(name, "(*sync.Mutex)."):
		p := args[0].(Ptr)
		key := "mu:" + ptrKey(p)
		l := st.locks[key]
		if gg := st.gs[st.cur]; !gg.resumed && !gg.counted {
			gg.muN++ // index of this mutex operation in the goroutine (used to replay preemptions natively)
			gg.counted = true
		}
		defer func() {
			if r := recover(); r != nil {
				panic(r)
			}
			st.gs[st.cur].counted = false
		}()
		switch short {
		case "Lock":
			if !(l.writer || l.readers > 0) {
				e.schedPoint(st)
			}
			if l.writer || l.readers > 0 {
				e.block(st, key)
			}
			l.writer = true
			if st.race != nil {
				st.race.acquire(st.cur, key)      // after every earlier writer section ...
				st.race.acquire(st.cur, key+":r") // ... and every earlier reader section
			}
		case "RLock":
			if !l.writer {
				e.schedPoint(st)
			}
			if l.writer {
				e.block(st, key)
			}
			l.readers++
			if st.race != nil {
				st.race.acquire(st.cur, key)
			}
		case "Unlock":
			if !e.acqOnly {
				e.schedPoint(st)
			}
			if !l.writer {
				e.goPanic(st, "unlock of unlocked mutex")
			}
			l.writer = false
			e.wake(st, key)
			if st.race != nil {
				st.race.release(st.cur, key)
			}
		case "RUnlock":
			if !e.acqOnly {
				e.schedPoint(st)
			}
			if l.readers <= 0 {
				e.goPanic(st, "runlock of unlocked mutex")
			}
			l.readers--
			e.wake(st, key)
			if st.race != nil {
				// reader sections are ordered with writer sections only, not with one another: a reader releases into a clock
				// that only writers acquire (the Go memory model: RUnlock happens before a later Lock, not before a later RLock)
				st.race.release(st.cur, key+":r")
			}
		}
		st.setLock(key, l)
	case name == "sync/atomic.LoadUint64" || name == "sync/atomic.LoadUint32":
		if st.race != nil {
			st.race.acquire(st.cur, "atomic:"+ptrKey(args[0].(Ptr)))
		}
		set(st.load(args[0].(Ptr)))
	case name == "sync/atomic.StoreUint64" || name == "sync/atomic.StoreUint32":
		if st.race != nil {
			st.race.acquire(st.cur, "atomic:"+ptrKey(args[0].(Ptr)))
			st.race.release(st.cur, "atomic:"+ptrKey(args[0].(Ptr)))
		}
		st.store(args[0].(Ptr), args[1])
	case name == "sync/atomic.AddUint64":
		nv := Bin("bvadd", st.load(args[0].(Ptr)).(*Term), args[1].(*Term))
		st.store(args[0].(Ptr), nv)
		set(nv)
	case name == "sync/atomic.CompareAndSwapUint64":
		cur := st.load(args[0].(Ptr)).(*Term)
		if e.decide(st, Eq(cur, args[1].(*Term))) {
			st.store(args[0].(Ptr), args[2])
			set(Bool(true))
		} else {
			set(Bool(false))
		}
	case name == "time.Since":
		set(BV(64, 0))
	case name == "time.Now":
		// arbitrary wall clock without monotonic reading: Time{wall: 0, ext: seconds since year 1, loc: nil}.
		// The instant changes only when the harness calls vndAdvanceClock() (then: any later-or-equal instant).
		tv := zero(fv.fn.Signature.Results().At(0).Type()).(Struct)
		if e.concreteClock && (st.lastNow == nil || st.clockMayAdvance) {
			// concrete realistic instants: 2023-11-14 plus 1000 s per declared advance
			nv := BV(64, 1700000000)
			if st.lastNow != nil {
				nv = Bin("bvadd", st.lastNow, BV(64, 1000))
			}
			st.lastNow = nv
			st.clockMayAdvance = false
		}
		if st.lastNow == nil || st.clockMayAdvance {
			sec := st.fresh("unixNow", 64)
			st.pc = append(st.pc, Cmp("bvsle", BV(64, 1600000000), sec), Cmp("bvsle", sec, BV(64, 4000000000)))
			if st.lastNow != nil {
				st.pc = append(st.pc, Cmp("bvsle", st.lastNow, sec))
			}
			st.lastNow = sec
			st.clockMayAdvance = false
		}
		f := append([]Value(nil), tv.f...)
		f[1] = Bin("bvadd", st.lastNow, BV(64, 62135596800))
		set(Struct{f: f})
	case short == "vndAdvanceClock":
		st.clockMayAdvance = true
	case name == "(*sync.Once).Do":
		p := args[0].(Ptr)
		key := fmt.Sprintf("once:%d:%v", p.obj, p.path)
		switch {
		case st.covered[key+":done"]:
			if st.race != nil {
				st.race.acquire(st.cur, key)
			}
		case st.covered[key]:
			e.block(st, key) // another goroutine is inside f
		default:
			st.setCovered(key)
			st.top().ip++
			e.pushCall(st, args[1].(Func), nil, nil)
			st.top().onRet = key
			st.callPushed = true
		}
	case name == "(*encoding/base64.Encoding).EncodeToString":
		set(Str{b: []*Term{BV(8, 'b')}})
	case name == "crypto/sha256.New":
		dt := e.prog.ImportedPackage("crypto/sha256").Type("digest").Type()
		set(Iface{t: types.NewPointer(dt), v: Ptr{obj: st.alloc(&HashObj{})}})
	case name == "(*crypto/sha256.digest).Write":
		p := args[0].(Ptr)
		h := st.heap[p.obj].(*HashObj)
		s := args[1].(Slice)
		n := &HashObj{in: append([]*Term(nil), h.in...)}
		for i := 0; i < s.len; i++ {
			n.in = append(n.in, st.arrOf(s).e[s.off+i].(*Term))
		}
		st.setHeap(p.obj, n)
		set(Tuple{e: []Value{BV(64, uint64(s.len)), Iface{}}})
	case name == "(*crypto/sha256.digest).Sum":
		p := args[0].(Ptr)
		h := st.heap[p.obj].(*HashObj)
		out := e.sha(st, h.in)
		a := Array{e: make([]Value, 32)}
		for i := range a.e {
			a.e[i] = out[i]
		}
		set(Slice{arr: st.alloc(a), len: 32, cap: 32})
	case name == "fmt.Printf" || name == "fmt.Println" || name == "fmt.Print":
		set(Tuple{e: []Value{BV(64, 0), Iface{}}}) // console output is not modelled (arguments were evaluated by the caller)
	case name == "fmt.Sprintf" || name == "fmt.Sprint":
		// "%v" of a []uint16 is an injective function of the slice (the one place where formatted strings are compared)
		if name == "fmt.Sprintf" && strOf(args[0]) == "%v" {
			va := args[1].(Slice)
			if va.len == 1 {
				if iv, ok := st.arrOf(va).e[va.off].(Iface); ok {
					if sl, ok := iv.v.(Slice); ok {
						r := Str{b: []*Term{BV(8, uint64(sl.len))}}
						okAll := true
						for i := 0; i < sl.len; i++ {
							t, isT := st.arrOf(sl).e[sl.off+i].(*Term)
							if !isT || t.w != 16 {
								okAll = false
								break
							}
							r.b = append(r.b, Resize(Bin("bvlshr", t, BV(16, 8)), 8, false), Resize(t, 8, false))
						}
						if okAll {
							set(r)
							break
						}
					}
				}
			}
		}
		set(Str{b: []*Term{BV(8, '?')}})
	case name == "runtime.GOMAXPROCS" || name == "runtime.NumCPU":
		set(BV(64, 1)) // a configuration constant for the code under test
	case name == "errors.Is":
		// the identity step of errors.Is (the real one needs reflection for the comparability test). Errors made by
		// fmt.Errorf / errors.New are opaque in this engine (a %w-wrapped error is not reachable through them), and a dynamic
		// type with its own Unwrap or Is method is not followed: such a path is incomplete rather than wrongly decided.
		ev, _ := args[0].(Iface)
		if ev.t != nil {
			ms := e.prog.MethodSets.MethodSet(ev.t)
			if ms.Lookup(nil, "Unwrap") != nil || ms.Lookup(nil, "Is") != nil {
				e.kill("incomplete: errors.Is on an error type with Unwrap/Is")
			}
		}
		set(eqv(args[0], args[1]))
	case name == "fmt.Errorf" || name == "errors.New" || name == "github.com/pkg/errors.Errorf" || name == "github.com/pkg/errors.New":
		// opaque non-nil error with its own identity (two errors are equal only if they are the same value)
		set(Iface{t: types.Universe.Lookup("error").Type(), v: Ptr{obj: st.alloc(Struct{})}})
	case name == "encoding/hex.EncodeToString" && !e.realHex:
		sl := args[0].(Slice)
		n := sl.len
		r := Str{}
		opaque := false
		for i := 0; i < n; i++ {
			if t, ok := st.arrOf(sl).e[sl.off+i].(*Term); ok && (t.op == "tagbyte" || t.op == "blobref") && !e.constHex {
				opaque = true
			}
		}
		for i := 0; i < n; i++ {
			if opaque {
				// the encoding of an opaque (tagged) byte string, e.g. a serialised group element used as a map key: an injective
				// string of the right length (every byte twice) - equal iff the inputs are equal, which is all the code can observe
				t := st.arrOf(sl).e[sl.off+i].(*Term)
				r.b = append(r.b, t, t)
				continue
			}
			r.b = append(r.b, BV(8, 'x'), BV(8, 'x'))
		}
		set(r)
	default:
		return false
	}
	return true
}

type HashObj struct{ in []*Term }

type shaApp struct{ in, out []*Term }
type fhashApp struct {
	dom     string
	in, out []*Term
}

// sha: SHA-256 as an uninterpreted function with congruence and (assumed) collision freeness over the applications on this path
func (e *Engine) sha(st *State, in []*Term) []*Term {
	allc := true
	for _, t := range in {
		if !t.IsConst() {
			allc = false
		}
	}
	for _, a := range st.shaApps {
		if len(a.in) == len(in) {
			same := true
			for i := range in {
				if a.in[i] != in[i] {
					same = false
				}
			}
			if same {
				return a.out
			}
		}
	}
	var out []*Term
	if allc {
		out = shaUF(in) // the real digest
	} else {
		out = make([]*Term, 32)
		st.nvars++
		for i := range out {
			out[i] = intern(&Term{op: "var", w: 8, name: fmt.Sprintf("sha#%d[%d]", st.nvars, i)})
		}
	}
	for _, a := range st.shaApps {
		oe := Bool(true)
		for i := range out {
			oe = And(oe, Eq(a.out[i], out[i]))
		}
		if len(a.in) != len(in) {
			st.pc = append(st.pc, Not(oe)) // inputs of different length: assumed collision freeness
			continue
		}
		ie := Bool(true)
		for i := range in {
			ie = And(ie, Eq(a.in[i], in[i]))
		}
		st.pc = append(st.pc, Eq(ie, oe)) // congruence and collision freeness in one equivalence
	}
	st.shaApps = append(st.shaApps, shaApp{in: in, out: out})
	return out
}

var shaMemo = map[string][]*Term{}

// shaUF: real SHA-256 for concrete input, otherwise 32 fresh bytes per distinct input term vector
func shaUF(in []*Term) []*Term {
	allc := true
	key := ""
	for _, t := range in {
		key += fmt.Sprintf("%d,", t.id)
		if !t.IsConst() {
			allc = false
		}
	}
	if r, ok := shaMemo[key]; ok {
		return r
	}
	out := make([]*Term, 32)
	if allc {
		b := make([]byte, len(in))
		for i, t := range in {
			b[i] = byte(t.val)
		}
		d := sha256.Sum256(b)
		for i := range out {
			out[i] = BV(8, uint64(d[i]))
		}
	} else {
		for i := range out {
			out[i] = intern(&Term{op: "var", w: 8, name: fmt.Sprintf("sha(%s)[%d]", key, i)})
		}
	}
	shaMemo[key] = out
	return out
}

func strOf(v Value) string {
	s := v.(Str)
	b := make([]byte, len(s.b))
	for i, t := range s.b {
		b[i] = byte(t.val)
	}
	return string(b)
}

// pureCall executes a side-effect-free callee by forking locally and merging the scalar results into one ite term,
// so the caller continues on a single path.
func (e *Engine) pureCall(st *State, fv Func, args []Value) Value {
	sub := st.clone()
	sub.frames = nil
	sub.gs = []*G{{}}
	sub.cur = 0
	base := len(st.pc)
	sub.replay, sub.log = nil, nil
	e.pushCall(sub, fv, args, nil)
	sub.pureRoot = true
	savedWork := e.work
	e.work = []*State{sub}
	e.pureDepth++
	type res struct {
		cond *Term
		val  *Term
	}
	var results []res
	for len(e.work) > 0 {
		s := e.work[len(e.work)-1]
		e.work = e.work[:len(e.work)-1]
		func() {
			defer func() {
				if r := recover(); r != nil {
					pe, ok := r.(pathEnd)
					if !ok {
						panic(r)
					}
					if pe.why == "pure-done" {
						c := Bool(true)
						for _, t := range s.pc[base:] {
							c = And(c, t)
						}
						results = append(results, res{c, s.pureResult.(*Term)})
						return
					}
					if pe.why != "infeasible" {
						e.incomplete["incomplete: pure callee ended with "+pe.why]++
					}
				}
			}()
			for {
				e.stepSafe(s)
			}
		}()
	}
	e.pureDepth--
	e.work = savedWork
	if len(results) == 0 {
		e.kill("incomplete: pure callee has no result")
	}
	out := results[len(results)-1].val
	for i := len(results) - 2; i >= 0; i-- {
		out = Ite(results[i].cond, results[i].val, out)
	}
	return out
}

func (e *Engine) Run(entry *ssa.Function) {
	st := &State{loopCount: map[*ssa.BasicBlock]int{}, covered: map[string]bool{}, locks: map[string]lockSt{}}
	st.gs = []*G{{}}
	if e.raceOn {
		st.race = newRaceState()
	}
	st.heap = append(st.heap, nil) // object 0 = nil
	// globals of the package under test: zero-initialised
	for _, m := range e.pkg.Members {
		if g, ok := m.(*ssa.Global); ok {
			globals[g] = st.alloc(zero(g.Type().Underlying().(*types.Pointer).Elem()))
		}
	}
	// dependencies whose package-level variables are read by executed code: their globals are allocated and their
	// initialisers are run (small allow-listed library packages and every package of the module under test);
	// a read of any other package's global is reported as a note and yields the zero value
	var depInits []*ssa.Function
	for _, p := range e.prog.AllPackages() {
		path := p.Pkg.Path()
		alloc, run := false, false
		switch path {
		case "errors", "io", "bytes", "strings", "encoding/hex", "encoding/binary", "context", "encoding/base64":
			alloc, run = true, true
		case "crypto/rand":
			alloc = true
		}
		std := run // the small library packages are initialised also under -noinit (sentinel errors such as io.EOF, context.Canceled)
		if e.modPrefix != "" && strings.HasPrefix(path, e.modPrefix) && p != e.pkg {
			alloc, run = true, true
		}
		if !alloc {
			continue
		}
		for _, m := range p.Members {
			if g, ok := m.(*ssa.Global); ok {
				if _, have := globals[g]; !have {
					globals[g] = st.alloc(zero(g.Type().Underlying().(*types.Pointer).Elem()))
				}
			}
		}
		if run && (!e.noinit || std) {
			if ini := p.Func("init"); ini != nil && ini.Blocks != nil {
				depInits = append(depInits, ini)
			}
		}
	}
	// dependency initialisers run before the package's own (order among them: errors first, it is what the others use)
	sort.SliceStable(depInits, func(i, j int) bool {
		return depInits[i].Pkg.Pkg.Path() != "errors" && depInits[j].Pkg.Pkg.Path() == "errors"
	})
	for _, ini := range depInits {
		// each dependency initialiser runs to completion on a copy of the initial state; one that needs something the
		// engine does not execute (reflection, unsafe) is skipped with a note and its globals stay zero
		sub := st.clone()
		sub.frames = nil
		sub.gs = []*G{{}}
		e.pushCall(sub, Func{fn: ini}, nil, nil)
		sub.pureRoot = true
		savedWork := e.work
		e.work = nil
		ok := false
		func() {
			defer func() {
				if r := recover(); r != nil {
					if pe, isEnd := r.(pathEnd); isEnd {
						ok = pe.why == "pure-done" && len(e.work) == 0
						return
					}
					if _, isStr := r.(string); isStr {
						return // engine limitation inside a library initialiser
					}
					panic(r)
				}
			}()
			for {
				e.stepSafe(sub)
			}
		}()
		e.work = savedWork
		if ok {
			st.heap = sub.heap
			st.nvars = sub.nvars
		} else {
			e.incomplete["note: initialiser of "+ini.Pkg.Pkg.Path()+" not executed"]++
		}
	}
	e.pushCall(st, Func{fn: entry}, nil, nil)
	if ini := e.pkg.Func("init"); ini != nil && !e.noinit {
		e.pushCall(st, Func{fn: ini}, nil, nil) // runs first, then falls back into entry
	}
	e.work = append(e.work, st)
	for len(e.work) > 0 {
		st := e.work[len(e.work)-1]
		e.work = e.work[:len(e.work)-1]
		e.runPath(st)
		e.paths++
		if e.maxPaths > 0 && e.paths >= e.maxPaths {
			e.incomplete["path budget"]++
			break
		}
	}
}

func (e *Engine) runPath(st *State) {
	defer func() {
		if r := recover(); r != nil {
			pe, ok := r.(pathEnd)
			if !ok {
				panic(r)
			}
			if strings.HasPrefix(pe.why, "incomplete") {
				e.incomplete[pe.why]++
			}
			e.ends[pe.why]++
		}
	}()
	for {
		e.stepSafe(st)
	}
}

func (e *Engine) stepSafe(st *State) {
	defer func() {
		if r := recover(); r != nil {
			if _, ok := r.(resched); ok {
				return
			}
			if _, ok := r.(pathEnd); !ok && os.Getenv("SYMGO_CRASHSITE") != "" {
				fmt.Fprintf(os.Stderr, "engine crash at %s: %v\n", e.site(st), r)
			}
			panic(r)
		}
	}()
	e.step(st)
}
