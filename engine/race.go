package main

import (
	"fmt"
)

// Happens-before race monitor over the explored schedules (FastTrack-style, simplified).
// Edges are over-approximated (one clock per sync object), so a reported race is unordered under any finer model.

type shadowCell struct {
	path  []int
	wG    int
	wC    int
	wPos  string
	reads map[int]int
	rPos  map[int]string
}

type raceState struct {
	vc     [][]int
	clk    map[string][]int
	shadow map[int][]*shadowCell
}

func newRaceState() *raceState {
	return &raceState{vc: [][]int{{1}}, clk: map[string][]int{}, shadow: map[int][]*shadowCell{}}
}

func (r *raceState) clone() *raceState {
	n := &raceState{clk: map[string][]int{}, shadow: map[int][]*shadowCell{}}
	for _, v := range r.vc {
		n.vc = append(n.vc, append([]int(nil), v...))
	}
	for k, v := range r.clk {
		n.clk[k] = append([]int(nil), v...)
	}
	for k, cells := range r.shadow {
		nc := make([]*shadowCell, len(cells))
		for i, c := range cells {
			cc := *c
			cc.reads = map[int]int{}
			cc.rPos = map[int]string{}
			for g, x := range c.reads {
				cc.reads[g] = x
			}
			for g, x := range c.rPos {
				cc.rPos[g] = x
			}
			nc[i] = &cc
		}
		n.shadow[k] = nc
	}
	return n
}

func get(v []int, i int) int {
	if i < len(v) {
		return v[i]
	}
	return 0
}

func join(a, b []int) []int {
	n := len(a)
	if len(b) > n {
		n = len(b)
	}
	r := make([]int, n)
	for i := range r {
		r[i] = get(a, i)
		if get(b, i) > r[i] {
			r[i] = get(b, i)
		}
	}
	return r
}

func (r *raceState) spawn(parent int) {
	child := append([]int(nil), r.vc[parent]...)
	id := len(r.vc)
	for len(child) <= id {
		child = append(child, 0)
	}
	child[id] = 1
	r.vc = append(r.vc, child)
	r.tick(parent)
}

func (r *raceState) tick(g int) {
	for len(r.vc[g]) <= g {
		r.vc[g] = append(r.vc[g], 0)
	}
	r.vc[g][g]++
}

func (r *raceState) acquire(g int, key string) { r.vc[g] = join(r.vc[g], r.clk[key]) }
func (r *raceState) release(g int, key string) {
	r.clk[key] = join(r.clk[key], r.vc[g])
	r.tick(g)
}

func overlap(a, b []int) bool {
	n := len(a)
	if len(b) < n {
		n = len(b)
	}
	for i := 0; i < n; i++ {
		if a[i] != b[i] {
			return false
		}
	}
	return true
}

func samePath(a, b []int) bool { return len(a) == len(b) && overlap(a, b) }

// access returns a description of a race, or ""
func (r *raceState) access(g int, obj int, path []int, write bool, pos string) string {
	if obj == 0 {
		return ""
	}
	me := r.vc[g]
	var exact *shadowCell
	race := ""
	for _, c := range r.shadow[obj] {
		if !overlap(c.path, path) {
			continue
		}
		if samePath(c.path, path) {
			exact = c
		}
		if c.wG >= 0 && c.wG != g && c.wC > get(me, c.wG) {
			race = fmt.Sprintf("write by g%d at %s / %s by g%d at %s", c.wG, c.wPos, rw(write), g, pos)
		}
		if write {
			for rg, rc := range c.reads {
				if rg != g && rc > get(me, rg) {
					race = fmt.Sprintf("read by g%d at %s / write by g%d at %s", rg, c.rPos[rg], g, pos)
				}
			}
		}
	}
	if exact == nil {
		exact = &shadowCell{path: append([]int(nil), path...), wG: -1, reads: map[int]int{}, rPos: map[int]string{}}
		r.shadow[obj] = append(r.shadow[obj], exact)
	}
	if write {
		exact.wG, exact.wC, exact.wPos = g, get(me, g), pos
		exact.reads, exact.rPos = map[int]int{}, map[int]string{}
	} else {
		exact.reads[g], exact.rPos[g] = get(me, g), pos
	}
	return race
}

func rw(w bool) string {
	if w {
		return "write"
	}
	return "read"
}
