package main

import (
	"fmt"

	"golang.org/x/tools/go/ssa"
)

type deferred struct {
	fn   Value
	args []Value
}

type Frame struct {
	fn     *ssa.Function
	blk    *ssa.BasicBlock
	prev   *ssa.BasicBlock
	ip     int
	env    map[ssa.Value]Value
	defers []deferred
	loops  map[*ssa.BasicBlock]int
	deferForPanic bool // this frame is a deferred call run while a panic unwinds
	recovering    bool // panic was recovered: run the remaining defers, then continue at fn.Recover
	onRet  string    // sync.Once key to complete when this frame returns
	call   ssa.Value // call instruction in the caller awaiting the result (nil for go/defer/entry)
}

type G struct {
	frames  []*Frame
	done    bool
	blocked string
	resumed bool
	condPhase int
	quiesced  bool
	sendTicket int // unbuffered send in progress: the deposit number to wait for
	muN       int
	counted   bool
	panicMsg     string // non-empty: a panic is unwinding this goroutine
	recovered    bool
	unwindPaused bool   // a deferred call is executing during the unwinding
}

type lockSt struct {
	writer  bool
	readers int
}

type ChanObj struct {
	buf    []Value
	cap    int
	closed bool
	sent   int // unbuffered channels: values deposited so far / taken so far (a sender proceeds once its value was taken)
	recvd  int
}

type State struct {
	gs       []*G
	cur      int
	locks    map[string]lockSt
	preempts int
	heap   []Value
	frames []*Frame
	pc     []*Term
	trace  []string
	named  []*Term
	tags   []string
	nvars  int
	steps  int
	// per-instruction fork bookkeeping
	replay       []bool
	log          []bool
	pcMark       int
	nvarsMark    int
	namedMark    int
	traceMark    int
	loopCount    map[*ssa.BasicBlock]int
	covered      map[string]bool
	incomplete   string
	goroutines   int
	callPushed   bool
	hashVars     []*Term
	shaApps      []shaApp
	fhashApps    []fhashApp
	pureRoot     bool
	forkDepth    int
	forkHash     uint64
	lastNow      *Term
	clockMayAdvance bool
	race         *raceState
	pureResult   Value
	// undo journal of the instruction being executed: a fork re-executes the instruction in a clone, which must start
	// from the state the instruction started in (not from whatever the handler had already mutated before deciding)
	jHeap     []heapUndo
	jHeapLen  int
	jLocks    []lockUndo
	jG        []G
	jCovered  []string
	jPreempts int
	asn1Memo  []asn1Memo
}

type heapUndo struct {
	obj int
	old Value
}
type lockUndo struct {
	key     string
	old     lockSt
	existed bool
}

func (st *State) beginStep() {
	st.log = st.log[:0]
	st.pcMark = len(st.pc)
	st.nvarsMark = st.nvars
	st.namedMark = len(st.named)
	st.traceMark = len(st.trace)
	st.jHeap = st.jHeap[:0]
	st.jHeapLen = len(st.heap)
	st.jLocks = st.jLocks[:0]
	st.jCovered = st.jCovered[:0]
	st.jPreempts = st.preempts
	st.jG = st.jG[:0]
	for _, g := range st.gs {
		st.jG = append(st.jG, *g)
	}
}

func (st *State) setHeap(i int, v Value) {
	if i < st.jHeapLen {
		st.jHeap = append(st.jHeap, heapUndo{i, st.heap[i]})
	}
	st.heap[i] = v
}

func (st *State) setLock(key string, l lockSt) {
	old, ex := st.locks[key]
	st.jLocks = append(st.jLocks, lockUndo{key, old, ex})
	st.locks[key] = l
}

func (st *State) setCovered(key string) {
	if !st.covered[key] {
		st.jCovered = append(st.jCovered, key)
	}
	st.covered[key] = true
}

// undoInto rolls the clone `alt` (taken in the middle of an instruction) back to the state the instruction started in.
func (st *State) undoInto(alt *State) {
	for i := len(st.jHeap) - 1; i >= 0; i-- {
		alt.heap[st.jHeap[i].obj] = st.jHeap[i].old
	}
	if st.jHeapLen < len(alt.heap) {
		alt.heap = alt.heap[:st.jHeapLen]
	}
	for i := len(st.jLocks) - 1; i >= 0; i-- {
		u := st.jLocks[i]
		if u.existed {
			alt.locks[u.key] = u.old
		} else {
			delete(alt.locks, u.key)
		}
	}
	for _, k := range st.jCovered {
		delete(alt.covered, k)
	}
	alt.preempts = st.jPreempts
	if len(alt.gs) > len(st.jG) {
		alt.gs = alt.gs[:len(st.jG)]
	}
	for i := range alt.gs {
		fr := alt.gs[i].frames
		g := st.jG[i]
		g.frames = fr
		*alt.gs[i] = g
	}
}

func (st *State) clone() *State {
	n := &State{}
	n.heap = append([]Value(nil), st.heap...)
	n.frames = make([]*Frame, len(st.frames))
	for i, f := range st.frames {
		nf := *f
		nf.env = make(map[ssa.Value]Value, len(f.env))
		for k, v := range f.env {
			nf.env[k] = v
		}
		nf.defers = append([]deferred(nil), f.defers...)
		if f.loops != nil {
			nf.loops = map[*ssa.BasicBlock]int{}
			for k, v := range f.loops {
				nf.loops[k] = v
			}
		}
		n.frames[i] = &nf
	}
	n.gs = make([]*G, len(st.gs))
	for i, g := range st.gs {
		ng := *g
		if i == st.cur {
			ng.frames = n.frames
		} else {
			ng.frames = make([]*Frame, len(g.frames))
			for k, f := range g.frames {
				nf := *f
				nf.env = make(map[ssa.Value]Value, len(f.env))
				for kk, v := range f.env {
					nf.env[kk] = v
				}
				nf.defers = append([]deferred(nil), f.defers...)
				if f.loops != nil {
					nf.loops = map[*ssa.BasicBlock]int{}
					for kk, v := range f.loops {
						nf.loops[kk] = v
					}
				}
				ng.frames[k] = &nf
			}
		}
		n.gs[i] = &ng
	}
	n.cur = st.cur
	n.preempts = st.preempts
	n.locks = map[string]lockSt{}
	for k, v := range st.locks {
		n.locks[k] = v
	}
	n.pc = append([]*Term(nil), st.pc...)
	n.trace = append([]string(nil), st.trace...)
	n.named = append([]*Term(nil), st.named...)
	n.tags = append([]string(nil), st.tags...)
	n.nvars = st.nvars
	n.steps = st.steps
	n.loopCount = map[*ssa.BasicBlock]int{}
	for k, v := range st.loopCount {
		n.loopCount[k] = v
	}
	n.covered = map[string]bool{}
	for k, v := range st.covered {
		n.covered[k] = v
	}
	n.goroutines = st.goroutines
	n.pureRoot = st.pureRoot
	n.forkDepth = st.forkDepth
	n.forkHash = st.forkHash
	n.lastNow = st.lastNow
	n.clockMayAdvance = st.clockMayAdvance
	if st.race != nil {
		n.race = st.race.clone()
	}
	n.hashVars = append([]*Term(nil), st.hashVars...)
	n.shaApps = append([]shaApp(nil), st.shaApps...)
	n.fhashApps = append([]fhashApp(nil), st.fhashApps...)
	n.asn1Memo = append([]asn1Memo(nil), st.asn1Memo...)
	return n
}

func (st *State) top() *Frame { return st.frames[len(st.frames)-1] }

func (st *State) alloc(v Value) int {
	st.heap = append(st.heap, v)
	return len(st.heap) - 1
}

func (st *State) fresh(tag string, w int) *Term {
	st.nvars++
	t := intern(&Term{op: "var", w: w, name: fmt.Sprintf("%s#%d", tag, st.nvars)})
	st.named = append(st.named, t)
	st.tags = append(st.tags, tag)
	return t
}

// navigation inside immutable values
func getPath(v Value, path []int) Value {
	for _, i := range path {
		switch x := v.(type) {
		case Struct:
			v = x.f[i]
		case Array:
			v = x.e[i]
		default:
			panic(fmt.Sprintf("getPath: %T", v))
		}
	}
	return v
}

func setPath(v Value, path []int, nv Value) Value {
	if len(path) == 0 {
		return nv
	}
	i := path[0]
	switch x := v.(type) {
	case Struct:
		f := append([]Value(nil), x.f...)
		f[i] = setPath(f[i], path[1:], nv)
		return Struct{f: f}
	case Array:
		e := append([]Value(nil), x.e...)
		e[i] = setPath(e[i], path[1:], nv)
		return Array{e: e}
	}
	panic(fmt.Sprintf("setPath: %T", v))
}

func (st *State) load(p Ptr) Value  { return getPath(st.heap[p.obj], p.path) }
func (st *State) store(p Ptr, v Value) { st.setHeap(p.obj, setPath(st.heap[p.obj], p.path, v)) }
