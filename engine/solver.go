package main

import (
	"bufio"
	"math/big"
	"os"
	"fmt"
	"io"
	"os/exec"
	"strings"
	"time"
)

type Solver struct {
	cmd     *exec.Cmd
	in      io.WriteCloser
	out     *bufio.Reader
	defined int // all terms with id < defined are known to the solver (base level)
	Queries int
	Sat     int
	Unsat   int
	Unknown int
	Time    time.Duration
	log     io.Writer
	lastSat bool
	witness *witness
	Witnessed int
	Restarts  int
	ValueTimeouts int
	bsol      *Solver // solver process for the non-Real part of split queries
	splitB    []*Term // the independently solved non-Real part of the last query (see Check); its model is fetched on demand
	aux     *Solver
	bin     string
	stack   []*Term
	marks   []int
}

var solverLogs int

func NewSolver(bin string) *Solver {
	s := &Solver{bin: bin}
	if lf := os.Getenv("SYMGO_SOLVER_LOG"); lf != "" {
		solverLogs++
		s.log, _ = os.Create(fmt.Sprintf("%s.%d", lf, solverLogs))
	}
	s.start()
	return s
}

func (s *Solver) start() {
	cmd := exec.Command(s.bin, "-in")
	in, _ := cmd.StdinPipe()
	out, _ := cmd.StdoutPipe()
	cmd.Stderr = cmd.Stdout
	if err := cmd.Start(); err != nil {
		panic(err)
	}
	s.cmd, s.in, s.out = cmd, in, bufio.NewReader(out)
	s.defined, s.stack, s.marks = 0, nil, nil
	s.send("(set-option :print-success false)")
	s.send("(set-option :timeout 10000)")
	s.send("(set-option :global-decls true)") // definitions survive pop: every term is sent exactly once
}

// checkWall is the wall-clock limit of one check-sat: z3's own :timeout is not honoured inside every tactic (nlsat can run
// for an hour on one query). When it passes, the solver process is killed and a fresh one started (every term is then
// defined again on demand); the query counts as "unknown", which the caller reports as an incomplete result.
var checkWall = 40 * time.Second

// readAnswer reads the answer to a check-sat under the wall-clock limit
func (s *Solver) readAnswer() string {
	type ans struct {
		l   string
		err error
	}
	ch := make(chan ans, 1)
	out := s.out
	go func() {
		l, err := out.ReadString('\n')
		ch <- ans{l, err}
	}()
	select {
	case a := <-ch:
		if a.err != nil {
			// the solver process is gone (killed under memory pressure, crashed): start a fresh one; the query counts as
			// undecided, the run goes on and reports it
			s.cmd.Process.Kill()
			s.cmd.Wait()
			s.Restarts++
			s.start()
			return "unknown-walltime"
		}
		return strings.TrimSpace(a.l)
	case <-time.After(checkWall):
		s.cmd.Process.Kill()
		s.cmd.Wait()
		<-ch
		s.Restarts++
		s.start()
		return "unknown-walltime"
	}
}

func (s *Solver) send(line string) {
	if s.log != nil {
		fmt.Fprintln(s.log, line)
	}
	io.WriteString(s.in, line+"\n")
}

func (s *Solver) defineUpTo() {
	for s.defined < len(termList) {
		t := termList[s.defined]
		if t.op != "const" && t.op != "rconst" && t.op != "tagbyte" && t.op != "blobref" && t.op != "fconst" {
			s.send(t.def())
		}
		s.defined++
	}
}

func (s *Solver) readLine() string {
	l, err := s.out.ReadString('\n')
	if err != nil {
		panic("solver died: " + err.Error())
	}
	return strings.TrimSpace(l)
}

// Check returns "sat","unsat","unknown" for the conjunction of ts.
// The solver keeps an assertion stack (one push level per asserted term); a query pops back to the longest
// common prefix with the previous query and pushes the rest, so path-condition prefixes are asserted once.
func (s *Solver) Check(ts []*Term) string {
	var seq []*Term
	for _, t := range ts {
		if t.IsFalse() {
			return "unsat"
		}
		if !t.IsTrue() {
			seq = append(seq, t)
		}
	}
	t0 := time.Now()
	s.witness = nil
	s.splitB = nil
	// syntactic contradiction: an assertion and its negation
	ids := make(map[int]bool, len(seq))
	for _, t := range seq {
		ids[t.id] = true
	}
	for _, t := range seq {
		if t.op == "not" && ids[t.args[0].id] {
			s.Queries++
			s.Unsat++
			return "unsat"
		}
	}
	anyReal := false
	for _, t := range seq {
		if usesReal(t) {
			anyReal = true
			break
		}
	}
	if anyReal && os.Getenv("SYMGO_NOWITNESS") == "" {
		// theory split: assertions over Reals (with their Boolean structure) and assertions without any Real term that share
		// no variable are independent, so the conjunction is satisfiable iff both parts are. The Real part is tried with the
		// explicit-witness search, the rest goes to the solver as usual; its model values complete the witness.
		rp, bp := splitByVars(seq)
		if len(bp) > 0 && len(rp) > 0 {
			// the non-Real part has its own solver process, so that each process keeps an assertion stack whose prefixes are shared
			// from query to query (alternating the two parts on one stack re-asserts everything every time)
			if s.bsol == nil {
				s.bsol = NewSolver(s.bin)
			}
			rb := s.bsol.Check(bp)
			s.bsol.Done()
			s.Queries++
			if rb == "unsat" {
				s.Unsat++
				return "unsat"
			}
			if rb == "sat" {
				s.Sat++
				rr := s.Check(rp) // witness search first, then the solver on the Real part alone (where the nlsat tactic applies)
				if rr == "sat" {
					s.splitB = bp // the values of the other part's variables are fetched only if a model is asked for (Values)
				}
				return rr
			}
		}
		if w := tryWitness(seq); w != nil {
			s.witness = w
			s.Queries++
			s.Sat++
			s.Witnessed++
			s.lastSat = true
			s.Time += time.Since(t0)
			return "sat"
		}
	}
	k := 0
	for k < len(s.stack) && k < len(seq) && s.stack[k] == seq[k] {
		k++
	}
	if n := len(s.stack) - k; n > 0 {
		s.send(fmt.Sprintf("(pop %d)", n))
		s.stack = s.stack[:k]
		s.marks = s.marks[:k]
	}
	for _, t := range seq[k:] {
		s.marks = append(s.marks, s.defined)
		s.send("(push 1)")
		s.defineUpTo()
		s.send("(assert " + t.ref() + ")")
		s.stack = append(s.stack, t)
	}
	ts = seq
	s.defineUpTo()
	hasReal := false
	for _, t := range ts {
		if usesReal(t) {
			hasReal = true
			break
		}
	}
	if hasReal {
		s.send("(check-sat-using (then simplify solve-eqs qfnra-nlsat))")
	} else {
		s.send("(check-sat)")
	}
	r := s.readAnswer()
	if hasReal && r != "sat" && r != "unsat" && r != "unknown-walltime" {
		s.send("(check-sat)")
		r = s.readAnswer()
	}
	if r == "unknown-walltime" {
		r = "unknown"
	}
	if r != "sat" && r != "unsat" && hasReal {
		// last resort: the assertions that are purely about Reals (and Boolean variables) alone, in a separate solver
		// process with the nlsat tactic; unsat of a subset is unsat of the whole
		if s.auxUnsat(ts) {
			r = "unsat"
		}
	}
	s.Queries++
	switch r {
	case "sat":
		s.Sat++
	case "unsat":
		s.Unsat++
	default:
		s.Unknown++
		if os.Getenv("SYMGO_DUMP_UNKNOWN") != "" {
			f, _ := os.Create(fmt.Sprintf("%s/unknown-%d.smt2", os.Getenv("SYMGO_DUMP_UNKNOWN"), s.Unknown))
			for i := 0; i < s.defined; i++ {
				t := termList[i]
				if t.op != "const" && t.op != "rconst" && t.op != "tagbyte" && t.op != "blobref" {
					fmt.Fprintln(f, t.def())
				}
			}
			for _, t := range ts {
				if !t.IsTrue() {
					fmt.Fprintln(f, "(assert "+t.ref()+")")
				}
			}
			fmt.Fprintln(f, "(check-sat)")
			f.Close()
		}
		if strings.Contains(r, "error") {
			panic("solver error: " + r)
		}
	}
	s.lastSat = r == "sat"
	if d := time.Since(t0); d > 2*time.Second && os.Getenv("SYMGO_SLOWQ") != "" {
		fmt.Fprintf(os.Stderr, "slow query #%d: %s after %.1fs (%d assertions, real=%v)\n", s.Queries, r, d.Seconds(), len(ts), hasReal)
	}
	s.Time += time.Since(t0)
	return r
}

// after a sat Check, Values may be asked; then Done must be called
// LastRats holds, after Values, the values of the Real-sorted terms as "num/den" strings (by term name)
var LastRats = map[string]string{}


// parseRat understands z3's numerals: 3.0, (- 3.0), (/ 1.0 3.0), (- (/ 1.0 3.0)), (/ (- 1.0) 3.0)
func parseRat(v string) (string, bool) {
	neg := strings.Count(v, "-")%2 == 1
	clean := strings.NewReplacer("(", " ", ")", " ", "-", " ", "/", " ").Replace(v)
	f := strings.Fields(clean)
	if strings.Contains(v, "root-obj") || len(f) == 0 || len(f) > 2 {
		return "", false
	}
	num := strings.TrimSuffix(f[0], ".0")
	den := "1"
	if len(f) == 2 {
		den = strings.TrimSuffix(f[1], ".0")
	}
	if strings.ContainsAny(num+den, ".eE") {
		r, ok := new(big.Rat).SetString(f[0])
		if !ok {
			return "", false
		}
		if len(f) == 2 {
			d, ok := new(big.Rat).SetString(f[1])
			if !ok || d.Sign() == 0 {
				return "", false
			}
			r.Quo(r, d)
		}
		if neg {
			r.Neg(r)
		}
		return r.RatString(), true
	}
	if neg {
		num = "-" + num
	}
	return num + "/" + den, true
}

func (s *Solver) Values(ts []*Term) []uint64 {
	res := s.valuesCurrent(ts)
	if bp := s.splitB; bp != nil {
		// the non-Real part was solved on its own: solve it again and take the values of its variables from that model
		s.splitB = nil
		inB := map[int]bool{}
		var vs []*Term
		for _, t := range bp {
			leafVars(t, inB, &vs)
		}
		var ask []*Term
		var idx []int
		for i, t := range ts {
			if t.op == "var" && t.w >= 0 && inB[t.id] {
				ask = append(ask, t)
				idx = append(idx, i)
			}
		}
		if len(ask) > 0 && s.bsol != nil && s.bsol.Check(bp) == "sat" {
			vb := s.bsol.valuesCurrent(ask)
			s.bsol.Done()
			for k, i := range idx {
				res[i] = vb[k]
			}
		}
	}
	return res
}

func (s *Solver) valuesCurrent(ts []*Term) []uint64 {
	res := make([]uint64, len(ts))
	if s.witness != nil {
		for i, t := range ts {
			switch {
			case t.IsConst():
				res[i] = t.val
			case t.w == -1:
				if v, ok := s.witness.reals[t.id]; ok {
					LastRats[t.name] = v.Num().String() + "/" + v.Denom().String()
				} else {
					LastRats[t.name] = "1/1"
				}
			case t.w == 0:
				if s.witness.bools[t.id] {
					res[i] = 1
				}
			default:
				if x, ok := s.witness.bvs[t.id]; ok {
					res[i] = x
				}
			}
		}
		return res
	}
	for i, t := range ts {
		if t.IsConst() {
			res[i] = t.val
			continue
		}
		if t.id >= s.defined {
			s.defineUpTo()
		}
		s.send("(get-value (" + t.ref() + "))")
		l := s.readAnswer() // model evaluation over algebraic numbers can run away too: same wall-clock limit as a check-sat
		if l == "unknown-walltime" {
			// the solver was restarted: no model any more. The remaining values stay zero; a counterexample built from them is
			// replayed natively before it is reported, so a wrong value cannot turn into a false alarm.
			s.ValueTimeouts++
			return res
		}
		if strings.HasPrefix(l, "(error") {
			panic("solver error in get-value: " + l)
		}
		for strings.Count(l, "(") > strings.Count(l, ")") {
			l += " " + s.readLine() // multi-line answers
		}
		// ((n12 #x0100)) or ((n3 true)) or ((n1 (_ bv3 8)))
		l = strings.TrimSuffix(strings.TrimPrefix(l, "(("), "))")
		parts := strings.SplitN(l, " ", 2)
		v := strings.TrimSpace(parts[1])
		if t.w == -1 {
			if r, ok := parseRat(v); ok {
				LastRats[t.name] = r
			} else {
				LastRats[t.name] = "?"
			}
			continue
		}
		switch {
		case v == "true":
			res[i] = 1
		case v == "false":
			res[i] = 0
		case strings.HasPrefix(v, "#x"):
			fmt.Sscanf(v[2:], "%x", &res[i])
		case strings.HasPrefix(v, "#b"):
			fmt.Sscanf(v[2:], "%b", &res[i])
		case strings.HasPrefix(v, "(_ bv"):
			fmt.Sscanf(v[5:], "%d", &res[i])
		}
	}
	return res
}

func (s *Solver) Done() { s.lastSat = false; s.witness = nil; s.splitB = nil }

func (s *Solver) Close() { s.in.Close(); s.cmd.Wait() }

var realMemo = map[int]bool{}

func usesReal(t *Term) bool {
	if v, ok := realMemo[t.id]; ok {
		return v
	}
	r := t.w == -1
	for _, a := range t.args {
		if r {
			break
		}
		if a.op != "tagbyte" && usesReal(a) {
			r = true
		}
	}
	realMemo[t.id] = r
	return r
}


var pureRealMemo = map[int]bool{}

// pureReal: no bit-vector or floating-point term anywhere below t
func pureReal(t *Term) bool {
	if v, ok := pureRealMemo[t.id]; ok {
		return v
	}
	r := t.w <= 0 && t.w != -2
	if t.op == "tagbyte" || t.op == "blobref" {
		r = false
	}
	for _, a := range t.args {
		if !r {
			break
		}
		if !pureReal(a) {
			r = false
		}
	}
	pureRealMemo[t.id] = r
	return r
}

func (s *Solver) auxUnsat(ts []*Term) bool {
	if s.aux == nil {
		s.aux = NewSolver(s.bin)
	}
	a := s.aux
	a.defineUpTo()
	a.send("(push 1)")
	n := 0
	for _, t := range ts {
		if !t.IsTrue() && pureReal(t) {
			a.send("(assert " + t.ref() + ")")
			n++
		}
	}
	if n == 0 {
		a.send("(pop 1)")
		return false
	}
	a.send("(check-sat-using (then simplify solve-eqs qfnra-nlsat))")
	r := a.readAnswer()
	if r == "unknown-walltime" {
		return false // the auxiliary process was restarted: nothing to pop
	}
	a.send("(pop 1)")
	return r == "unsat"
}


func leafVars(t *Term, seen map[int]bool, out *[]*Term) {
	if seen[t.id] {
		return
	}
	seen[t.id] = true
	if t.op == "var" {
		*out = append(*out, t)
		return
	}
	for _, a := range t.args {
		leafVars(a, seen, out)
	}
}

func disjointVars(a, b []*Term) bool {
	var va, vb []*Term
	sa, sb := map[int]bool{}, map[int]bool{}
	for _, t := range a {
		leafVars(t, sa, &va)
	}
	for _, t := range b {
		leafVars(t, sb, &vb)
	}
	in := map[int]bool{}
	for _, v := range va {
		in[v.id] = true
	}
	for _, v := range vb {
		if in[v.id] {
			return false
		}
	}
	return true
}


// splitByVars: the assertions connected (through shared variables, transitively) to an assertion that mentions a Real term,
// and the rest. The two groups share no variable.
func splitByVars(seq []*Term) (rp, bp []*Term) {
	vars := make([][]*Term, len(seq))
	byVar := map[int][]int{}
	for i, t := range seq {
		leafVars(t, map[int]bool{}, &vars[i])
		for _, v := range vars[i] {
			byVar[v.id] = append(byVar[v.id], i)
		}
	}
	inR := make([]bool, len(seq))
	var work []int
	for i, t := range seq {
		if usesReal(t) {
			inR[i] = true
			work = append(work, i)
		}
	}
	for len(work) > 0 {
		i := work[len(work)-1]
		work = work[:len(work)-1]
		for _, v := range vars[i] {
			for _, j := range byVar[v.id] {
				if !inR[j] {
					inR[j] = true
					work = append(work, j)
				}
			}
		}
	}
	for i, t := range seq {
		if inR[i] {
			rp = append(rp, t)
		} else {
			bp = append(bp, t)
		}
	}
	return
}
