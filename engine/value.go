package main

import (
	"fmt"
	"go/types"

	"golang.org/x/tools/go/ssa"
)

type Value interface{}

type Struct struct{ f []Value }
type Array struct{ e []Value }
type Tuple struct{ e []Value }
type Ptr struct {
	obj  int // 0 = nil
	path []int
	nilc *Term // if non-nil: the pointer is nil iff nilc (guarded reference)
}
type Slice struct {
	arr           int   // heap object containing the Array; 0 = nil slice
	apath         []int // path of the Array inside the object
	off, len, cap int
}
type Str struct{ b []*Term }
type MapRef struct{ obj int } // 0 = nil map
type Iface struct {
	t    types.Type // nil = nil interface
	v    Value
	nilc *Term // if non-nil: the interface is nil iff nilc (guarded reference)
}
type Func struct {
	fn      *ssa.Function
	bind    []Value
	builtin string
}
type MapEntry struct {
	k, v Value
	p    *Term // presence condition; nil = present
}
type MapData struct{ entries []MapEntry }
type RangeIter struct {
	mp    *MapData
	str   *Str
	order []int
	pos   int
}

func intWidth(t types.Type) (int, bool, bool) { // width, signed, ok
	b, ok := t.Underlying().(*types.Basic)
	if !ok {
		return 0, false, false
	}
	switch b.Kind() {
	case types.Bool, types.UntypedBool:
		return 0, false, true
	case types.Int8:
		return 8, true, true
	case types.Int16:
		return 16, true, true
	case types.Int32, types.UntypedRune:
		return 32, true, true
	case types.Int, types.Int64, types.UntypedInt:
		return 64, true, true
	case types.Uint8:
		return 8, false, true
	case types.Uint16:
		return 16, false, true
	case types.Uint32:
		return 32, false, true
	case types.Uint, types.Uint64, types.Uintptr:
		return 64, false, true
	}
	return 0, false, false
}

func zero(t types.Type) Value {
	switch u := t.Underlying().(type) {
	case *types.Basic:
		if u.Kind() == types.String || u.Kind() == types.UntypedString {
			return Str{}
		}
		if u.Kind() == types.UnsafePointer {
			return Ptr{}
		}
		if u.Kind() == types.UntypedNil {
			return nil
		}
		if u.Kind() == types.Float64 || u.Kind() == types.UntypedFloat {
			return FConst(0)
		}
		w, _, ok := intWidth(t)
		if !ok {
			panic("zero: unsupported basic " + t.String())
		}
		if w == 0 {
			return Bool(false)
		}
		return BV(w, 0)
	case *types.Struct:
		s := Struct{f: make([]Value, u.NumFields())}
		for i := range s.f {
			s.f[i] = zero(u.Field(i).Type())
		}
		return s
	case *types.Array:
		a := Array{e: make([]Value, u.Len())}
		for i := range a.e {
			a.e[i] = zero(u.Elem())
		}
		return a
	case *types.Pointer:
		return Ptr{}
	case *types.Slice:
		return Slice{}
	case *types.Map:
		return MapRef{}
	case *types.Interface:
		return Iface{}
	case *types.Signature:
		return Func{}
	case *types.Chan:
		return Ptr{}
	case *types.Tuple:
		tu := Tuple{e: make([]Value, u.Len())}
		for i := range tu.e {
			tu.e[i] = zero(u.At(i).Type())
		}
		return tu
	}
	panic(fmt.Sprintf("zero: unsupported type %s (%T)", t, t.Underlying()))
}

// eqv returns the symbolic equality of two values of the same static type
func eqv(a, b Value) *Term {
	switch x := a.(type) {
	case *Term:
		return Eq(x, b.(*Term))
	case Str:
		y := b.(Str)
		if len(x.b) != len(y.b) {
			return Bool(false)
		}
		r := Bool(true)
		for i := range x.b {
			r = And(r, Eq(x.b[i], y.b[i]))
		}
		return r
	case Struct:
		y := b.(Struct)
		r := Bool(true)
		for i := range x.f {
			r = And(r, eqv(x.f[i], y.f[i]))
		}
		return r
	case Array:
		y := b.(Array)
		r := Bool(true)
		for i := range x.e {
			r = And(r, eqv(x.e[i], y.e[i]))
		}
		return r
	case Ptr:
		y := b.(Ptr)
		if x.obj == 0 && y.obj != 0 && y.nilc != nil {
			return y.nilc
		}
		if y.obj == 0 && x.obj != 0 && x.nilc != nil {
			return x.nilc
		}
		if x.nilc != nil || y.nilc != nil {
			panic("incomplete: comparison of two guarded references")
		}
		if x.obj != y.obj || len(x.path) != len(y.path) {
			return Bool(false)
		}
		for i := range x.path {
			if x.path[i] != y.path[i] {
				return Bool(false)
			}
		}
		return Bool(true)
	case MapRef:
		return Bool(x.obj == b.(MapRef).obj)
	case Slice:
		y := b.(Slice)
		return Bool(x.arr == y.arr && x.arr == 0)
	case Func:
		y := b.(Func)
		return Bool(x.fn == y.fn && x.builtin == y.builtin && len(x.bind) == 0 && len(y.bind) == 0)
	case Iface:
		y := b.(Iface)
		if x.t == nil && y.t != nil && y.nilc != nil {
			return y.nilc
		}
		if y.t == nil && x.t != nil && x.nilc != nil {
			return x.nilc
		}
		if x.t == nil || y.t == nil {
			return Bool(x.t == nil && y.t == nil)
		}
		if !types.Identical(x.t, y.t) {
			return Bool(false)
		}
		return eqv(x.v, y.v)
	case nil:
		return Bool(b == nil)
	}
	panic(fmt.Sprintf("eqv: unsupported %T", a))
}
