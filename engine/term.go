package main

import (
	"fmt"
	"math/bits"
	"strings"
)

// Sorts: W==0 => Bool, else BitVec W (W<=64 in the prototype)
type Term struct {
	id   int
	op   string // "const","var", or SMT op name
	args []*Term
	w    int    // 0 = bool
	val  uint64 // for const (bool: 0/1)
	name string // for var
	x, y int    // extract hi/lo, or zext amount in x
}

var (
	termTab  = map[string]*Term{}
	termList []*Term
)

func mask(w int) uint64 {
	if w >= 64 {
		return ^uint64(0)
	}
	return (uint64(1) << uint(w)) - 1
}

func intern(t *Term) *Term {
	var sb strings.Builder
	fmt.Fprintf(&sb, "%s|%d|%d|%s|%d|%d", t.op, t.w, t.val, t.name, t.x, t.y)
	for _, a := range t.args {
		fmt.Fprintf(&sb, "|%d", a.id)
	}
	k := sb.String()
	if e, ok := termTab[k]; ok {
		return e
	}
	t.id = len(termList)
	termList = append(termList, t)
	termTab[k] = t
	return t
}

func BV(w int, v uint64) *Term { return intern(&Term{op: "const", w: w, val: v & mask(w)}) }
func Bool(b bool) *Term {
	if b {
		return intern(&Term{op: "const", w: 0, val: 1})
	}
	return intern(&Term{op: "const", w: 0, val: 0})
}

var varCounter int

func Var(name string, w int) *Term {
	varCounter++
	return intern(&Term{op: "var", w: w, name: fmt.Sprintf("%s!%d", name, varCounter)})
}

func (t *Term) IsConst() bool { return t.op == "const" }
func (t *Term) IsTrue() bool  { return t.op == "const" && t.w == 0 && t.val == 1 }
func (t *Term) IsFalse() bool { return t.op == "const" && t.w == 0 && t.val == 0 }

func sext64(v uint64, w int) int64 {
	if w >= 64 {
		return int64(v)
	}
	if v&(1<<uint(w-1)) != 0 {
		return int64(v | ^mask(w))
	}
	return int64(v)
}

func Bin(op string, a, b *Term) *Term {
	if a.op == "tagbyte" || b.op == "tagbyte" {
		panic("incomplete: arithmetic on an opaque encoding byte")
	}
	if a.w != b.w {
		panic(fmt.Sprintf("width mismatch %s %d %d", op, a.w, b.w))
	}
	w := a.w
	if a.IsConst() && b.IsConst() {
		x, y := a.val, b.val
		switch op {
		case "bvadd":
			return BV(w, x+y)
		case "bvsub":
			return BV(w, x-y)
		case "bvmul":
			return BV(w, x*y)
		case "bvand":
			return BV(w, x&y)
		case "bvor":
			return BV(w, x|y)
		case "bvxor":
			return BV(w, x^y)
		case "bvshl":
			if y >= uint64(w) {
				return BV(w, 0)
			}
			return BV(w, x<<y)
		case "bvlshr":
			if y >= uint64(w) {
				return BV(w, 0)
			}
			return BV(w, x>>y)
		case "bvashr":
			if y >= uint64(w) {
				y = uint64(w - 1)
			}
			return BV(w, uint64(sext64(x, w)>>y))
		case "bvudiv":
			if y != 0 {
				return BV(w, x/y)
			}
		case "bvurem":
			if y != 0 {
				return BV(w, x%y)
			}
		case "bvsdiv":
			if y != 0 {
				return BV(w, uint64(sext64(x, w)/sext64(y, w)))
			}
		case "bvsrem":
			if y != 0 {
				return BV(w, uint64(sext64(x, w)%sext64(y, w)))
			}
		}
	}
	// light simplifications
	switch op {
	case "bvadd", "bvor", "bvxor":
		if a.IsConst() && a.val == 0 {
			return b
		}
		if b.IsConst() && b.val == 0 {
			return a
		}
	case "bvsub", "bvshl", "bvlshr", "bvashr":
		if b.IsConst() && b.val == 0 {
			return a
		}
	case "bvand":
		if (a.IsConst() && a.val == 0) || (b.IsConst() && b.val == 0) {
			return BV(w, 0)
		}
	}
	return intern(&Term{op: op, w: w, args: []*Term{a, b}})
}

// HexChar is the lower-case hex digit of a 4-bit term: equality is decided on the nibbles, never on 16-way ite chains.
const hexDigits = "0123456789abcdef"

func HexChar(nib *Term) *Term {
	if nib.IsConst() {
		return BV(8, uint64(hexDigits[nib.val]))
	}
	return intern(&Term{op: "hexchar", w: 8, args: []*Term{nib}})
}

func hexEq(a, b *Term) (*Term, bool) {
	if a.op != "hexchar" {
		a, b = b, a
	}
	if a.op != "hexchar" {
		return nil, false
	}
	if b.op == "hexchar" {
		return Eq(a.args[0], b.args[0]), true
	}
	if b.IsConst() {
		for i := 0; i < 16; i++ {
			if uint64(hexDigits[i]) == b.val {
				return Eq(a.args[0], BV(4, uint64(i))), true
			}
		}
		return Bool(false), true
	}
	return nil, false
}

func Cmp(op string, a, b *Term) *Term {
	if op == "=" && (a.op == "hexchar" || b.op == "hexchar") {
		if r, ok := hexEq(a, b); ok {
			return r
		}
	}
	if a.op == "blobref" || b.op == "blobref" {
		if op != "=" {
			panic("incomplete: ordering comparison on an opaque asn1 byte")
		}
		if a.op == "blobref" && b.op == "blobref" {
			return eqFrozen(blobTable[a.x].v, blobTable[b.x].v)
		}
		return Bool(false)
	}
	if a.op == "tagbyte" || b.op == "tagbyte" {
		if op == "=" {
			return tagEq(a, b)
		}
		panic("incomplete: ordering comparison on an opaque encoding byte")
	}
	if a.w != b.w {
		panic(fmt.Sprintf("width mismatch %s %d %d", op, a.w, b.w))
	}
	if a.IsConst() && b.IsConst() {
		x, y := a.val, b.val
		sx, sy := sext64(x, a.w), sext64(y, a.w)
		switch op {
		case "=":
			return Bool(x == y)
		case "bvult":
			return Bool(x < y)
		case "bvule":
			return Bool(x <= y)
		case "bvslt":
			return Bool(sx < sy)
		case "bvsle":
			return Bool(sx <= sy)
		}
	}
	if op == "=" && a == b {
		return Bool(true)
	}
	if op == "=" && a.w == 0 {
		if a.IsConst() {
			if a.val == 1 {
				return b
			}
			return Not(b)
		}
		if b.IsConst() {
			if b.val == 1 {
				return a
			}
			return Not(a)
		}
	}
	if op == "=" && a.id > b.id {
		a, b = b, a
	}
	return intern(&Term{op: op, w: 0, args: []*Term{a, b}})
}

func Eq(a, b *Term) *Term { return Cmp("=", a, b) }

// TagByte is byte i of the opaque encoding (kind) of the Real-sorted element e. It never reaches the solver:
// equality is decided structurally (same kind and index => equality of the encoded elements; anything else => different,
// i.e. encodings of distinct kinds/positions and literal bytes are assumed never to coincide).
func TagByte(kind string, e *Term, i int) *Term {
	return intern(&Term{op: "tagbyte", w: 8, name: kind, args: []*Term{e}, x: i})
}

func tagEq(a, b *Term) *Term {
	if a.op == "tagbyte" && b.op == "tagbyte" {
		if (a.name == b.name || a.name == "any" || b.name == "any") && a.x == b.x {
			return REq(a.args[0], b.args[0])
		}
		return Bool(false)
	}
	return Bool(false)
}

func Not(a *Term) *Term {
	if a.IsConst() {
		return Bool(a.val == 0)
	}
	if a.op == "not" {
		return a.args[0]
	}
	return intern(&Term{op: "not", w: 0, args: []*Term{a}})
}

func And(a, b *Term) *Term {
	if a.IsFalse() || b.IsFalse() {
		return Bool(false)
	}
	if a.IsTrue() {
		return b
	}
	if b.IsTrue() {
		return a
	}
	if a == b {
		return a
	}
	return intern(&Term{op: "and", w: 0, args: []*Term{a, b}})
}

func Or(a, b *Term) *Term {
	if a.IsTrue() || b.IsTrue() {
		return Bool(true)
	}
	if a.IsFalse() {
		return b
	}
	if b.IsFalse() {
		return a
	}
	if a == b {
		return a
	}
	return intern(&Term{op: "or", w: 0, args: []*Term{a, b}})
}

func Ite(c, a, b *Term) *Term {
	if c.IsTrue() {
		return a
	}
	if c.IsFalse() {
		return b
	}
	if a == b {
		return a
	}
	if a.w == 0 {
		return Or(And(c, a), And(Not(c), b))
	}
	return intern(&Term{op: "ite", w: a.w, args: []*Term{c, a, b}})
}

func BvNot(a *Term) *Term {
	if a.IsConst() {
		return BV(a.w, ^a.val)
	}
	return intern(&Term{op: "bvnot", w: a.w, args: []*Term{a}})
}
func BvNeg(a *Term) *Term {
	if a.IsConst() {
		return BV(a.w, -a.val)
	}
	return intern(&Term{op: "bvneg", w: a.w, args: []*Term{a}})
}

// Resize converts a to width w (zero- or sign-extending, or truncating)
func Resize(a *Term, w int, signed bool) *Term {
	if a.w == w {
		return a
	}
	if a.IsConst() {
		if w < a.w {
			return BV(w, a.val)
		}
		if signed {
			return BV(w, uint64(sext64(a.val, a.w)))
		}
		return BV(w, a.val)
	}
	if w < a.w {
		return intern(&Term{op: "extract", w: w, args: []*Term{a}, x: w - 1, y: 0})
	}
	if signed {
		return intern(&Term{op: "sext", w: w, args: []*Term{a}, x: w - a.w})
	}
	return intern(&Term{op: "zext", w: w, args: []*Term{a}, x: w - a.w})
}

func sortStr(w int) string {
	if w == 0 {
		return "Bool"
	}
	if w == -1 {
		return "Real"
	}
	if w == -2 {
		return "(_ FloatingPoint 11 53)"
	}
	return fmt.Sprintf("(_ BitVec %d)", w)
}

func (t *Term) ref() string {
	if t.op == "rconst" {
		return realRef(t)
	}
	if t.op == "fconst" {
		return fmt.Sprintf("((_ to_fp 11 53) #x%016x)", t.val)
	}
	if t.op == "const" {
		if t.w == 0 {
			if t.val == 1 {
				return "true"
			}
			return "false"
		}
		return fmt.Sprintf("(_ bv%d %d)", t.val, t.w)
	}
	return fmt.Sprintf("n%d", t.id)
}

// def returns the SMT-LIB definition line of a non-const term
func (t *Term) def() string {
	if d, ok := fpDef(t); ok {
		return d
	}
	if t.op == "hexchar" {
		e := fmt.Sprintf("(_ bv%d 8)", hexDigits[15])
		for i := 14; i >= 0; i-- {
			e = fmt.Sprintf("(ite (= %s (_ bv%d 4)) (_ bv%d 8) %s)", t.args[0].ref(), i, hexDigits[i], e)
		}
		return fmt.Sprintf("(define-fun n%d () (_ BitVec 8) %s)", t.id, e)
	}
	switch t.op {
	case "var":
		return fmt.Sprintf("(declare-const n%d %s) ; %s", t.id, sortStr(t.w), t.name)
	case "extract":
		return fmt.Sprintf("(define-fun n%d () %s ((_ extract %d %d) %s))", t.id, sortStr(t.w), t.x, t.y, t.args[0].ref())
	case "zext":
		return fmt.Sprintf("(define-fun n%d () %s ((_ zero_extend %d) %s))", t.id, sortStr(t.w), t.x, t.args[0].ref())
	case "sext":
		return fmt.Sprintf("(define-fun n%d () %s ((_ sign_extend %d) %s))", t.id, sortStr(t.w), t.x, t.args[0].ref())
	}
	var as []string
	for _, a := range t.args {
		as = append(as, a.ref())
	}
	return fmt.Sprintf("(define-fun n%d () %s (%s %s))", t.id, sortStr(t.w), t.op, strings.Join(as, " "))
}

var _ = bits.Len
