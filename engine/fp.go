package main

import (
	"fmt"
	"math"
)

// float64 terms (w == -2), encoded in the SMT FloatingPoint theory, bit-precise (RNE as Go does).

func FConst(f float64) *Term {
	return intern(&Term{op: "fconst", w: -2, val: math.Float64bits(f)})
}

func (t *Term) fval() (float64, bool) {
	if t.op != "fconst" {
		return 0, false
	}
	return math.Float64frombits(t.val), true
}

func FBin(op string, a, b *Term) *Term {
	x, xc := a.fval()
	y, yc := b.fval()
	if xc && yc {
		switch op {
		case "fp.add":
			return FConst(x + y)
		case "fp.sub":
			return FConst(x - y)
		case "fp.mul":
			return FConst(x * y)
		case "fp.div":
			return FConst(x / y)
		}
	}
	return intern(&Term{op: op, w: -2, args: []*Term{a, b}})
}

func FCmp(op string, a, b *Term) *Term {
	x, xc := a.fval()
	y, yc := b.fval()
	if xc && yc {
		switch op {
		case "fp.lt":
			return Bool(x < y)
		case "fp.leq":
			return Bool(x <= y)
		case "fp.eq":
			return Bool(x == y)
		}
	}
	return intern(&Term{op: op, w: 0, args: []*Term{a, b}})
}

func ToFP(a *Term, signed bool) *Term {
	if a.IsConst() {
		if signed {
			return FConst(float64(sext64(a.val, a.w)))
		}
		return FConst(float64(a.val))
	}
	op := "to_fp_u"
	if signed {
		op = "to_fp_s"
	}
	return intern(&Term{op: op, w: -2, args: []*Term{a}})
}

func fpDef(t *Term) (string, bool) {
	switch t.op {
	case "fp.add", "fp.sub", "fp.mul", "fp.div":
		return fmt.Sprintf("(define-fun n%d () (_ FloatingPoint 11 53) (%s RNE %s %s))", t.id, t.op, t.args[0].ref(), t.args[1].ref()), true
	case "fp.lt", "fp.leq", "fp.eq":
		return fmt.Sprintf("(define-fun n%d () Bool (%s %s %s))", t.id, t.op, t.args[0].ref(), t.args[1].ref()), true
	case "to_fp_s":
		return fmt.Sprintf("(define-fun n%d () (_ FloatingPoint 11 53) ((_ to_fp 11 53) RNE %s))", t.id, t.args[0].ref()), true
	case "to_fp_u":
		return fmt.Sprintf("(define-fun n%d () (_ FloatingPoint 11 53) ((_ to_fp_unsigned 11 53) RNE %s))", t.id, t.args[0].ref()), true
	}
	return "", false
}
