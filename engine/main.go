package main

import (
	_ "embed"
	"bytes"
	"encoding/json"
	"os/exec"
	"path/filepath"
	"regexp"
	"strings"
	"flag"
	"fmt"
	"os"
	"sort"
	"time"

	"golang.org/x/tools/go/packages"
	"golang.org/x/tools/go/ssa"
	"golang.org/x/tools/go/ssa/ssautil"
)

//go:embed vnd.go.tmpl
var vndTmpl string

//go:embed replay_test.go.tmpl
var replayTmpl string

func main() {
	dir := flag.String("dir", "", "package dir")
	harness := flag.String("harness", "", "harness file")
	entry := flag.String("entry", "", "entry function")
	loop := flag.Int("unwind", 64, "loop bound")
	maxPaths := flag.Int("maxpaths", 0, "path budget")
	z3 := flag.String("z3", "z3", "solver binary")
	pre := flag.Int("preempt", 2, "preemption bound")
	replay := flag.String("replay", "", "tape file to replay natively")
	extra := flag.String("overlay", "", "extra overlay entries virtual=real,virtual=real")
	noinit := flag.Bool("noinit", false, "do not run the package initialiser")
	constHex := flag.Bool("consthex", false, "hex.EncodeToString of opaque (tagged) bytes yields a constant string instead of an injective one: a map keyed by it then has one entry (used where the keyed comparison is not the subject and makes the algebra queries undecidable in time)")
	tags := flag.String("tags", "", "build tags for loading the packages (e.g. math_big_pure_go: math/big without assembly)")
	mapOrder := flag.Bool("maporder", false, "explore every map iteration order")
	redir := flag.String("redirect", "", "library function redirects lib.Func=harnessFunc,...")
	allTraces := flag.Bool("alltraces", false, "print the choice trace of every violating path")
	raceOn := flag.Bool("race", false, "happens-before race monitor")
	havoc := flag.Bool("asn1havoc", false, "asn1.Unmarshal of untrusted bytes may yield an arbitrary value")
	shard := flag.String("shard", "", "i/n/depth: explore only the i-th of n shards, split at the depth-th real fork")
	resultFile := flag.String("result", "", "write a machine-readable result file")
	instrFile := flag.String("instr", "", "replay: source file of the package to instrument with yield points (e.g. msgbox.go)")
	realHex := flag.Bool("realhex", false, "execute encoding/hex from its SSA instead of the length-only stub")
	cclock := flag.Bool("concreteclock", false, "time.Now returns concrete realistic instants (1.7e9 s + 1000 s per vndAdvanceClock) instead of symbolic ones")
	acq := flag.Bool("acqonly", false, "preemption points only before acquire-type operations (Lock/RLock, channel operations); releases are left-movers, so for data-race-free code no schedule is lost")
	maxVec := flag.Int("asn1maxvec", 2, "asn1 havoc: maximum length of a decoded vector")
	det := flag.Bool("det", false, "deterministic choice of the next goroutine when the current one blocks (canonical schedule)")
	expect := flag.String("expect", "", "assert id (or panic) expected in replay")
	tapeDir := flag.String("tapes", "", "directory to write violation tapes to")
	nativeOv := flag.String("noverlay", "", "replay only: extra overlay entries virtual=real,...")
	replayTimeout := flag.Int("replaytimeout", 120, "replay: seconds before the native run is killed")
	nativeRedir := flag.Bool("nativeredirect", false, "replay: apply the -redirect table to generated copies of the package's source files, so the native twin runs against the same stubs")
	params := flag.String("D", "", "harness parameters NAME=VALUE,...: rewrites `const NAME = ...` lines of the harness files")
	flag.Parse()
	hfiles := strings.Split(*harness, ",")
	readH := func(p string) []byte {
		b, err := os.ReadFile(p)
		if err != nil {
			panic(err)
		}
		if *params != "" {
			for _, kv := range strings.Split(*params, ",") {
				p := strings.SplitN(kv, "=", 2)
				re := regexp.MustCompile(`(?m)^const ` + regexp.QuoteMeta(p[0]) + ` = [^/\n]*`)
				if !re.Match(b) {
					continue
				}
				b = re.ReplaceAll(b, []byte("const "+p[0]+" = "+p[1]+" "))
			}
		}
		return b
	}
	src := readH(hfiles[0])
	var err error
	pkgName := regexp.MustCompile(`(?m)^package (\w+)`).FindSubmatch(src)[1]
	exe, _ := os.Executable()
	base := filepath.Dir(exe)
	vndSrc := bytes.ReplaceAll([]byte(vndTmpl), []byte("PKGNAME"), pkgName)
	if *replay != "" {
		tst := []byte(replayTmpl)
		tst = bytes.ReplaceAll(bytes.ReplaceAll(tst, []byte("PKGNAME"), pkgName), []byte("ENTRY"), []byte(*entry))
		tmp, _ := os.MkdirTemp("", "verifreplay")
		defer os.RemoveAll(tmp)
		repl := map[string]string{}
		os.WriteFile(tmp+"/h.go", src, 0644)
		os.WriteFile(tmp+"/vnd.go", vndSrc, 0644)
		os.WriteFile(tmp+"/r_test.go", tst, 0644)
		repl[*dir+"/zz_verif_harness.go"] = tmp + "/h.go"
		repl[*dir+"/zz_verif_vnd.go"] = tmp + "/vnd.go"
		repl[*dir+"/zz_verif_replay_test.go"] = tmp + "/r_test.go"
		for i, hf := range hfiles[1:] {
			p := fmt.Sprintf("%s/h%d.go", tmp, i+1)
			os.WriteFile(p, readH(hf), 0644)
			repl[fmt.Sprintf("%s/zz_verif_harness_%d.go", *dir, i+1)] = p
		}
		for _, ovs := range []string{*extra, *nativeOv} {
			if ovs == "" {
				continue
			}
			for _, kv := range strings.Split(ovs, ",") {
				p := strings.SplitN(kv, "=", 2)
				repl[p[0]] = p[1]
			}
		}
		if *nativeRedir && *redir != "" {
			rd := map[string]string{}
			for _, kv := range strings.Split(*redir, ",") {
				p := strings.SplitN(kv, "=", 2)
				rd[p[0]] = p[1]
			}
			ovl := map[string][]byte{}
			for v, real := range repl {
				if strings.HasSuffix(v, "_test.go") {
					continue
				}
				b, _ := os.ReadFile(real)
				ovl[v] = b
			}
			for v, p := range nativeRedirects(*dir, ovl, rd, tmp) {
				repl[v] = p
			}
		}
		if *instrFile != "" {
			ic := exec.Command(filepath.Join(base, "instr"), filepath.Join(*dir, *instrFile), tmp+"/instr.go")
			if out, err := ic.CombinedOutput(); err != nil {
				panic(string(out))
			}
			repl[*dir+"/"+*instrFile] = tmp + "/instr.go"
		}
		ovb, _ := json.Marshal(map[string]interface{}{"Replace": repl})
		os.WriteFile(tmp+"/ov.json", ovb, 0644)
		targs := []string{"test", "-count=1", "-vet=off", "-overlay", tmp + "/ov.json", "-run", "TestVerifReplay", "-v"}
		if *raceOn {
			targs = append(targs, "-race")
		}
		if *expect == "deadlock" {
			targs = append(targs, "-timeout", "25s") // a hang is confirmed by the test binary's own watchdog
		}
		targs = append(targs, ".")
		cmd := exec.Command("timeout", append([]string{"-k", "5", fmt.Sprint(*replayTimeout), "go"}, targs...)...)
		cmd.Dir = *dir
		cmd.Env = append(os.Environ(), "GOFLAGS=-mod=mod", "GOPROXY=off", "GODEBUG=goindex=0", "VERIF_TAPE="+*replay, "VERIF_EXPECT="+*expect)
		if *raceOn {
			cmd.Env = append(cmd.Env, "VERIF_SLEEPSCHED=1")
		}
		out, _ := cmd.CombinedOutput()
		if os.Getenv("VERIF_REPLAY_RAW") != "" {
			fmt.Println(string(out))
		}
		shown := false
		if *expect == "deadlock" && (strings.Contains(string(out), "panic: test timed out") || strings.Contains(string(out), "all goroutines are asleep")) {
			fmt.Println("VERIF-REPLAY the native run hangs (test watchdog fired / runtime deadlock report)")
			fmt.Println("VERIF-REPLAY REPRODUCED")
		}
		if *expect == "race" && strings.Contains(string(out), "WARNING: DATA RACE") {
			fmt.Println("VERIF-REPLAY the race detector reports a data race in the native run")
			fmt.Println("VERIF-REPLAY REPRODUCED")
		}
		if *expect == "panic" && !strings.Contains(string(out), "VERIF-REPLAY REPRODUCED") {
			for _, l := range strings.Split(string(out), "\n") {
				if strings.HasPrefix(l, "panic:") || strings.HasPrefix(l, "fatal error:") {
					fmt.Println("VERIF-REPLAY panic outside the test goroutine:", l)
					fmt.Println("VERIF-REPLAY REPRODUCED")
					break
				}
			}
		}
		for _, l := range strings.Split(string(out), "\n") {
			if strings.Contains(l, "VERIF-") || strings.HasPrefix(l, "FAIL") || strings.HasPrefix(l, "ok") || strings.Contains(l, "DATA RACE") {
				fmt.Println(l)
				shown = true
			}
		}
		if !shown || os.Getenv("SYMGO_REPLAY_VERBOSE") != "" {
			fmt.Println(string(out))
		}
		return
	}
	t0 := time.Now()
	cfg := &packages.Config{Mode: packages.LoadAllSyntax, Dir: *dir, Env: append(os.Environ(), "GOFLAGS=-mod=mod", "GOPROXY=off", "GODEBUG=goindex=0"),
		Overlay: map[string][]byte{*dir + "/zz_verif_harness.go": src, *dir + "/zz_verif_vnd.go": vndSrc}}
	if *tags != "" {
		cfg.BuildFlags = []string{"-tags=" + *tags}
	}
	for i, hf := range hfiles[1:] {
		cfg.Overlay[fmt.Sprintf("%s/zz_verif_harness_%d.go", *dir, i+1)] = readH(hf)
	}
	if *extra != "" {
		for _, kv := range strings.Split(*extra, ",") {
			p := strings.SplitN(kv, "=", 2)
			b, err := os.ReadFile(p[1])
			if err != nil {
				panic(err)
			}
			cfg.Overlay[p[0]] = b
		}
	}
	for k, v := range cfg.Overlay {
		overlaySrc[k] = v
	}
	pkgs, err := packages.Load(cfg, ".")
	if err != nil {
		panic(err)
	}
	if packages.PrintErrors(pkgs) > 0 {
		os.Exit(2)
	}
	prog, spkgs := ssautil.AllPackages(pkgs, ssa.InstantiateGenerics)
	prog.Build()
	pkg := spkgs[0]
	fn := pkg.Func(*entry)
	if fn == nil {
		panic("no entry " + *entry)
	}
	load := time.Since(t0)
	e := &Engine{prog: prog, pkg: pkg, sol: NewSolver(*z3), violations: map[string]*Violation{}, vcount: map[string]int{}, covers: map[string]int{},
		funcs: map[string]bool{}, incomplete: map[string]int{}, ends: map[string]int{}, loopBound: *loop, maxPaths: *maxPaths, preemptBound: *pre, noinit: *noinit, constHex: *constHex, detSched: *det, mapOrder: *mapOrder, redirects: map[string]string{}, vtraces: map[string][]string{}, coverModels: map[string]*Violation{}, raceOn: *raceOn, realHex: *realHex, asn1Havoc: *havoc, concreteClock: *cclock, asn1MaxVec: *maxVec, acqOnly: *acq, debugDeadlock: os.Getenv("SYMGO_DEBUG_DEADLOCK") != ""}
	if pkgs[0].Module != nil {
		e.modPrefix = pkgs[0].Module.Path
		if i := strings.Index(e.modPrefix, "/mpc/"); i > 0 { // sub-modules of the repository share the root prefix
			e.modPrefix = e.modPrefix[:i]
		}
	}
	if *shard != "" {
		fmt.Sscanf(*shard, "%d/%d/%d", &e.shard, &e.shardN, &e.shardDepth)
	}
	if *redir != "" {
		for _, kv := range strings.Split(*redir, ",") {
			p := strings.SplitN(kv, "=", 2)
			if strings.HasPrefix(p[0], "wrap:") {
				continue // native replays only
			}
			e.redirects[p[0]] = p[1]
		}
	}
	t1 := time.Now()
	e.Run(fn)
	fmt.Printf("load %.1fs  exec %.1fs  paths %d forks %d steps %d  queries %d (sat %d unsat %d unknown %d) solver %.1fs  terms %d maxloop %d\n",
		load.Seconds(), time.Since(t1).Seconds(), e.paths, e.forks, e.steps, e.sol.Queries, e.sol.Sat, e.sol.Unsat, e.sol.Unknown, e.sol.Time.Seconds(), len(termList), e.maxLoop)
	if *resultFile != "" {
		type tapeEntry struct {
			Tag string `json:"tag"`
			Val uint64 `json:"val"`
			Rat string `json:"rat,omitempty"`
		}
		mk := func(v *Violation) []tapeEntry {
			var tape []tapeEntry
			for _, n := range v.order {
				tape = append(tape, tapeEntry{Tag: n[:strings.LastIndex(n, "#")], Val: v.model[n], Rat: v.rats[n]})
			}
			return tape
		}
		type vj struct {
			Kind  string      `json:"kind"`
			ID    string      `json:"id"`
			Count int         `json:"count"`
			Trace []string    `json:"trace"`
			Tape  []tapeEntry `json:"tape"`
		}
		res := map[string]interface{}{
			"entry": *entry, "dir": *dir, "load_s": load.Seconds(), "exec_s": time.Since(t1).Seconds(), "paths": e.paths, "forks": e.forks,
			"steps": e.steps, "witnessed_sat": e.sol.Witnessed, "queries": e.sol.Queries, "sat": e.sol.Sat, "unsat": e.sol.Unsat, "unknown": e.sol.Unknown,
			"solver_s": e.sol.Time.Seconds(), "terms": len(termList), "max_unwind": e.maxLoop, "unwind_bound": e.loopBound,
			"preempt_bound": e.preemptBound, "covers": e.covers, "incomplete": e.incomplete, "path_ends": e.ends,
		}
		var fl []string
		for f := range e.funcs {
			fl = append(fl, f)
		}
		sort.Strings(fl)
		res["functions"] = fl
		var vs, cs []vj
		for k, v := range e.violations {
			vs = append(vs, vj{Kind: v.kind, ID: v.id, Count: e.vcount[k], Trace: v.trace, Tape: mk(v)})
		}
		for _, v := range e.coverModels {
			cs = append(cs, vj{Kind: "cover", ID: v.id, Count: e.covers[v.id], Trace: v.trace, Tape: mk(v)})
		}
		res["violations"] = vs
		res["cover_models"] = cs
		b, _ := json.MarshalIndent(res, "", " ")
		os.WriteFile(*resultFile, b, 0644)
	}
	var fs []string
	for f := range e.funcs {
		fs = append(fs, f)
	}
	sort.Strings(fs)
	fmt.Println("functions executed:", fs)
	fmt.Println("covers:", e.covers)
	fmt.Println("incomplete:", e.incomplete)
	fmt.Println("path ends:", e.ends)
	vi := 0
	for k, v := range e.violations {
		vi++
		if *tapeDir != "" {
			type te struct {
				Tag string `json:"tag"`
				Val uint64 `json:"val"`
				Rat string `json:"rat,omitempty"`
			}
			var tape []te
			for _, n := range v.order {
				tape = append(tape, te{Tag: n[:strings.LastIndex(n, "#")], Val: v.model[n], Rat: v.rats[n]})
			}
			b, _ := json.Marshal(map[string]interface{}{"values": tape, "trace": v.trace})
			os.MkdirAll(*tapeDir, 0755)
			p := fmt.Sprintf("%s/%s-%d.json", *tapeDir, *entry, vi)
			os.WriteFile(p, b, 0644)
			fmt.Printf("tape %s expect %q\n", p, v.id)
		}
		fmt.Printf("VIOLATION %s (x%d)\n  trace %v\n", k, e.vcount[k], v.trace)
		if *allTraces {
			for _, t := range e.vtraces[k] {
				fmt.Println("   at", t)
			}
		}
		for _, n := range v.order {
			fmt.Printf("    %s = %d\n", n, v.model[n])
		}
	}
}
