package main

import (
	"sort"
	"fmt"
	"math/big"
	"os"
)

// Real-sorted terms (w == -1): the field handles of the algebra model. Constants are exact rationals.

func RConst(r *big.Rat) *Term {
	return intern(&Term{op: "rconst", w: -1, name: r.RatString()})
}
func RInt(i int64) *Term { return RConst(new(big.Rat).SetInt64(i)) }
func RVar(name string) *Term {
	return intern(&Term{op: "var", w: -1, name: name})
}
func (t *Term) rat() (*big.Rat, bool) {
	if t.op != "rconst" {
		return nil, false
	}
	r, ok := new(big.Rat).SetString(t.name)
	return r, ok
}

func RBin(op string, a, b *Term) *Term {
	if a.w != -1 || b.w != -1 {
		panic("RBin on non-real")
	}
	x, xc := a.rat()
	y, yc := b.rat()
	if xc && yc {
		switch op {
		case "+":
			return RConst(new(big.Rat).Add(x, y))
		case "-":
			return RConst(new(big.Rat).Sub(x, y))
		case "*":
			return RConst(new(big.Rat).Mul(x, y))
		case "/":
			if y.Sign() != 0 {
				return RConst(new(big.Rat).Quo(x, y))
			}
		}
	}
	if xc && x.Sign() == 0 {
		switch op {
		case "+":
			return b
		case "*":
			return a
		}
	}
	if yc && y.Sign() == 0 {
		switch op {
		case "+", "-":
			return a
		case "*":
			return b
		}
	}
	if op == "*" {
		if xc && x.Cmp(big.NewRat(1, 1)) == 0 {
			return b
		}
		if yc && y.Cmp(big.NewRat(1, 1)) == 0 {
			return a
		}
	}
	return intern(&Term{op: op, w: -1, args: []*Term{a, b}})
}

func REq(a, b *Term) *Term {
	if a == b {
		return Bool(true)
	}
	x, xc := a.rat()
	y, yc := b.rat()
	if xc && yc {
		return Bool(x.Cmp(y) == 0)
	}
	if eq, decided := polyEq(a, b); decided {
		return Bool(eq)
	}
	if a.id > b.id {
		a, b = b, a
	}
	return intern(&Term{op: "=", w: 0, args: []*Term{a, b}})
}

func realRef(t *Term) string {
	r, _ := t.rat()
	num, den := r.Num(), r.Denom()
	s := num.String()
	if num.Sign() < 0 {
		s = fmt.Sprintf("(- %s.0)", new(big.Int).Neg(num).String())
	} else {
		s += ".0"
	}
	if den.Cmp(big.NewInt(1)) == 0 {
		return s
	}
	return fmt.Sprintf("(/ %s %s.0)", s, den.String())
}

// ---- exact polynomial normal forms. Every Real-sorted term built from variables, rational constants, + - * and division
// by constants denotes a polynomial with rational coefficients; it is expanded into a canonical map monomial -> coefficient.
// Two terms with the same normal form are equal as polynomials, hence for every value of the variables: such equalities are
// folded to `true` when the term is built and never reach the solver (identity testing by exact arithmetic over Q).
// Anything else (division by a non-constant, a normal form beyond the size cap) is kept as an opaque atom and left to z3.
type poly map[string]*big.Rat

var polyMemo = map[int]poly{}

const polyCap = 1500000

func monoMul(a, b string) string {
	if a == "" {
		return b
	}
	if b == "" {
		return a
	}
	// monomials are sorted lists of "id^exp" joined by '*'
	type fe struct {
		id, e int
	}
	parse := func(s string) []fe {
		var r []fe
		for _, f := range splitStar(s) {
			var x fe
			fmt.Sscanf(f, "%d^%d", &x.id, &x.e)
			r = append(r, x)
		}
		return r
	}
	x, y := parse(a), parse(b)
	var out []fe
	i, j := 0, 0
	for i < len(x) || j < len(y) {
		switch {
		case j >= len(y) || (i < len(x) && x[i].id < y[j].id):
			out = append(out, x[i])
			i++
		case i >= len(x) || y[j].id < x[i].id:
			out = append(out, y[j])
			j++
		default:
			out = append(out, fe{x[i].id, x[i].e + y[j].e})
			i++
			j++
		}
	}
	s := ""
	for k, f := range out {
		if k > 0 {
			s += "*"
		}
		s += fmt.Sprintf("%d^%d", f.id, f.e)
	}
	return s
}

func splitStar(s string) []string {
	var r []string
	cur := ""
	for _, c := range s {
		if c == '*' {
			r = append(r, cur)
			cur = ""
		} else {
			cur += string(c)
		}
	}
	return append(r, cur)
}

func polyOf(t *Term) poly {
	if p, ok := polyMemo[t.id]; ok {
		return p
	}
	var p poly
	atom := func() poly { return poly{fmt.Sprintf("%d^1", t.id): big.NewRat(1, 1)} }
	switch t.op {
	case "rconst":
		r, _ := t.rat()
		p = poly{}
		if r.Sign() != 0 {
			p[""] = r
		}
	case "var":
		p = atom()
	case "+", "-":
		a, b := polyOf(t.args[0]), polyOf(t.args[1])
		p = make(poly, len(a)+len(b))
		for m, c := range a {
			p[m] = c
		}
		for m, c := range b {
			d := c
			if t.op == "-" {
				d = new(big.Rat).Neg(c)
			}
			if e, ok := p[m]; ok {
				s := new(big.Rat).Add(e, d)
				if s.Sign() == 0 {
					delete(p, m)
				} else {
					p[m] = s
				}
			} else {
				p[m] = d
			}
		}
	case "*":
		a, b := polyOf(t.args[0]), polyOf(t.args[1])
		if len(a)*len(b) > polyCap {
			if os.Getenv("SYMGO_POLYDBG") != "" {
				fmt.Fprintf(os.Stderr, "poly atom: product %d x %d beyond cap\n", len(a), len(b))
			}
			p = atom()
			break
		}
		p = make(poly, len(a)*len(b))
		for m1, c1 := range a {
			for m2, c2 := range b {
				m := monoMul(m1, m2)
				v := new(big.Rat).Mul(c1, c2)
				if e, ok := p[m]; ok {
					s := new(big.Rat).Add(e, v)
					if s.Sign() == 0 {
						delete(p, m)
					} else {
						p[m] = s
					}
				} else {
					p[m] = v
				}
			}
		}
	case "/":
		b := polyOf(t.args[1])
		if c, ok := b[""]; ok && len(b) == 1 {
			a := polyOf(t.args[0])
			inv := new(big.Rat).Inv(c)
			p = make(poly, len(a))
			for m, x := range a {
				p[m] = new(big.Rat).Mul(x, inv)
			}
		} else {
			p = atom()
		}
	default:
		if os.Getenv("SYMGO_POLYDBG") != "" {
			fmt.Fprintf(os.Stderr, "poly atom: op %s\n", t.op)
		}
		p = atom()
	}
	if len(p) > polyCap {
		p = atom()
	}
	polyMemo[t.id] = p
	return p
}

// polyEq decides a == b by normal forms: (true, true) identical, (false, true) differ by a non-zero constant, (_, false) undecided
func polyEq(a, b *Term) (bool, bool) {
	pa, pb := polyOf(a), polyOf(b)
	if len(pa) > 4000 || len(pb) > 4000 {
		// still exact, only slower: compare directly
	}
	diffConst := new(big.Rat)
	other := false
	for m, c := range pa {
		d := new(big.Rat).Set(c)
		if e, ok := pb[m]; ok {
			d.Sub(d, e)
		}
		if d.Sign() != 0 {
			if m == "" {
				diffConst = d
			} else {
				other = true
			}
		}
	}
	for m, c := range pb {
		if _, ok := pa[m]; !ok && c.Sign() != 0 {
			if m == "" {
				diffConst = new(big.Rat).Neg(c)
			} else {
				other = true
			}
		}
	}
	if other {
		if os.Getenv("SYMGO_POLYDBG") != "" {
			fmt.Fprintf(os.Stderr, "polyEq undecided: |a|=%d |b|=%d atomsA=%v atomsB=%v\n", len(pa), len(pb), len(pa) == 1, len(pb) == 1)
		}
		return false, false
	}
	return diffConst.Sign() == 0, true
}

// ---- explicit witnesses for satisfiable algebra queries. A query whose assertions are Boolean literals and (dis)equalities
// between Real-sorted terms is first evaluated exactly at one deterministic generic rational point; if every assertion holds
// there, the point IS a model (sat with an explicit witness) and z3 is not asked. Only `sat` can be concluded this way.
type witness struct {
	reals map[int]*big.Rat
	bools map[int]bool
	bvs   map[int]uint64
	memo  map[int]*big.Rat
}

func mix64(x uint64) uint64 { // splitmix64 finaliser
	x += 0x9e3779b97f4a7c15
	x = (x ^ (x >> 30)) * 0xbf58476d1ce4e5b9
	x = (x ^ (x >> 27)) * 0x94d049bb133111eb
	return x ^ (x >> 31)
}

func genericValue(id int, salt int) *big.Rat {
	x := mix64(uint64(id)*2 + uint64(salt))
	return big.NewRat(int64(x%999983)+2, 1)
}

func (w *witness) evalRat(t *Term, salt int) (*big.Rat, bool) {
	if r, ok := w.memo[t.id]; ok {
		return r, r != nil
	}
	var r *big.Rat
	switch t.op {
	case "rconst":
		r, _ = t.rat()
	case "var":
		v, ok := w.reals[t.id]
		if !ok {
			v = genericValue(t.id, salt)
			w.reals[t.id] = v
		}
		r = v
	case "+", "-", "*", "/":
		a, ok1 := w.evalRat(t.args[0], salt)
		b, ok2 := w.evalRat(t.args[1], salt)
		if ok1 && ok2 {
			switch t.op {
			case "+":
				r = new(big.Rat).Add(a, b)
			case "-":
				r = new(big.Rat).Sub(a, b)
			case "*":
				r = new(big.Rat).Mul(a, b)
			case "/":
				if b.Sign() != 0 {
					r = new(big.Rat).Quo(a, b)
				}
			}
		}
	}
	w.memo[t.id] = r
	return r, r != nil
}

func (w *witness) evalBool(t *Term, salt int) (bool, bool) {
	switch t.op {
	case "const":
		if t.w == 0 {
			return t.val == 1, true
		}
	case "var":
		if t.w == 0 {
			v, ok := w.bools[t.id]
			if !ok {
				w.bools[t.id] = false
			}
			return v, true
		}
	case "not":
		v, ok := w.evalBool(t.args[0], salt)
		return !v, ok
	case "and", "or":
		a, ok1 := w.evalBool(t.args[0], salt)
		b, ok2 := w.evalBool(t.args[1], salt)
		if t.op == "and" {
			return a && b, ok1 && ok2
		}
		return a || b, ok1 && ok2
	case "=":
		if t.args[0].w == -1 {
			a, ok1 := w.evalRat(t.args[0], salt)
			b, ok2 := w.evalRat(t.args[1], salt)
			if ok1 && ok2 {
				return a.Cmp(b) == 0, true
			}
		}
		if t.args[0].w == 0 {
			a, ok1 := w.evalBool(t.args[0], salt)
			b, ok2 := w.evalBool(t.args[1], salt)
			return a == b, ok1 && ok2
		}
		if t.args[0].w > 0 {
			a, ok1 := w.evalBV(t.args[0], salt)
			b, ok2 := w.evalBV(t.args[1], salt)
			return a == b, ok1 && ok2
		}
	}
	return false, false
}

// bit-vector leaves only (constants and variables, e.g. the bytes of an uninterpreted hash value)
func (w *witness) evalBV(t *Term, salt int) (uint64, bool) {
	switch t.op {
	case "const":
		return t.val, true
	case "var":
		if v, ok := w.bvs[t.id]; ok {
			return v, true
		}
		v := mix64(uint64(t.id)*2+uint64(salt)) & mask(t.w)
		w.bvs[t.id] = v
		return v, true
	}
	return 0, false
}

func flattenAnd(ts []*Term) []*Term {
	var out []*Term
	var rec func(t *Term)
	rec = func(t *Term) {
		if t.op == "and" {
			rec(t.args[0])
			rec(t.args[1])
			return
		}
		out = append(out, t)
	}
	for _, t := range ts {
		rec(t)
	}
	return out
}

func tryWitness(ts []*Term) *witness {
	ts = flattenAnd(ts) // an asserted conjunction is its conjuncts (so that an equation inside one can be repaired)
	for salt := 0; salt < 2; salt++ {
		w := &witness{reals: map[int]*big.Rat{}, bools: map[int]bool{}, bvs: map[int]uint64{}, memo: map[int]*big.Rat{}}
		// Boolean variables asserted as literals get the asserted polarity
		for _, t := range ts {
			if t.op == "var" && t.w == 0 {
				w.bools[t.id] = true
			}
			if t.op == "not" && t.args[0].op == "var" && t.args[0].w == 0 {
				w.bools[t.args[0].id] = false
			}
		}
		pinned := map[int]bool{}
		for repairs := 0; ; repairs++ {
			var failed *Term
			for _, t := range ts {
				v, ok := w.evalBool(t, salt)
				if !ok {
					if os.Getenv("SYMGO_WITDBG") != "" {
						fmt.Fprintf(os.Stderr, "witness: outside fragment: %s\n", t.def())
					}
					return nil // outside the fragment: ask the solver
				}
				if !v {
					if os.Getenv("SYMGO_WITDBG") != "" {
						fmt.Fprintf(os.Stderr, "witness: false at generic point: %s\n", t.def())
					}
					failed = t
					break
				}
			}
			if failed == nil {
				return w
			}
			// an asserted equation between Real terms that fails at the generic point: move ONE variable in which the
			// equation is affine (all others keep their values) to its root, then evaluate everything again. The result is
			// still an explicit point at which every assertion is checked exactly, so only `sat` is ever concluded.
			if repairs >= 12 || !w.repair(failed, salt, pinned) {
				break
			}
		}
	}
	return nil
}

func realVars(t *Term, seen map[int]bool, out *[]*Term) {
	if seen[t.id] {
		return
	}
	seen[t.id] = true
	if t.op == "var" && t.w == -1 {
		*out = append(*out, t)
		return
	}
	for _, a := range t.args {
		realVars(a, seen, out)
	}
}

func (w *witness) repair(eq *Term, salt int, pinned map[int]bool) bool {
	if eq.op != "=" || eq.args[0].w != -1 {
		return false
	}
	var vars []*Term
	realVars(eq, map[int]bool{}, &vars)
	sort.Slice(vars, func(i, j int) bool { return vars[i].id > vars[j].id }) // youngest first: fresh hash outputs, fresh randomness
	diffAt := func(v *Term, x *big.Rat) (*big.Rat, bool) {
		w.reals[v.id] = x
		w.memo = map[int]*big.Rat{}
		a, ok1 := w.evalRat(eq.args[0], salt)
		b, ok2 := w.evalRat(eq.args[1], salt)
		if !ok1 || !ok2 {
			return nil, false
		}
		return new(big.Rat).Sub(a, b), true
	}
	for _, v := range vars {
		if pinned[v.id] {
			continue
		}
		old := w.reals[v.id]
		x0, x1, x2 := big.NewRat(3, 1), big.NewRat(11, 1), big.NewRat(29, 1)
		f0, ok0 := diffAt(v, x0)
		f1, ok1 := diffAt(v, x1)
		f2, ok2 := diffAt(v, x2)
		if ok0 && ok1 && ok2 {
			slope := new(big.Rat).Quo(new(big.Rat).Sub(f1, f0), new(big.Rat).Sub(x1, x0))
			slope2 := new(big.Rat).Quo(new(big.Rat).Sub(f2, f1), new(big.Rat).Sub(x2, x1))
			if slope.Sign() != 0 && slope.Cmp(slope2) == 0 {
				root := new(big.Rat).Sub(x0, new(big.Rat).Quo(f0, slope))
				if d, ok := diffAt(v, root); ok && d.Sign() == 0 {
					pinned[v.id] = true
					return true
				}
			}
		}
		w.reals[v.id] = old
		w.memo = map[int]*big.Rat{}
	}
	return false
}
