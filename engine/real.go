package main

import (
	"fmt"
	"math/big"
)

// Real-sorted terms (w == -1): the field handles of the algebra model. Constants are exact rationals.

func RConst(r *big.Rat) *Term {
	return intern(&Term{op: "rconst", w: -1, name: r.RatString()})
}
func RInt(i int64) *Term { return RConst(new(big.Rat).SetInt64(i)) }
func RVar(name string) *Term {
	return intern(&Term{op: "var", w: -1, name: name})
}
func (t *Term) rat() (*big.Rat, bool) {
	if t.op != "rconst" {
		return nil, false
	}
	r, ok := new(big.Rat).SetString(t.name)
	return r, ok
}

func RBin(op string, a, b *Term) *Term {
	if a.w != -1 || b.w != -1 {
		panic("RBin on non-real")
	}
	x, xc := a.rat()
	y, yc := b.rat()
	if xc && yc {
		switch op {
		case "+":
			return RConst(new(big.Rat).Add(x, y))
		case "-":
			return RConst(new(big.Rat).Sub(x, y))
		case "*":
			return RConst(new(big.Rat).Mul(x, y))
		case "/":
			if y.Sign() != 0 {
				return RConst(new(big.Rat).Quo(x, y))
			}
		}
	}
	if xc && x.Sign() == 0 {
		switch op {
		case "+":
			return b
		case "*":
			return a
		}
	}
	if yc && y.Sign() == 0 {
		switch op {
		case "+", "-":
			return a
		case "*":
			return b
		}
	}
	if op == "*" {
		if xc && x.Cmp(big.NewRat(1, 1)) == 0 {
			return b
		}
		if yc && y.Cmp(big.NewRat(1, 1)) == 0 {
			return a
		}
	}
	return intern(&Term{op: op, w: -1, args: []*Term{a, b}})
}

func REq(a, b *Term) *Term {
	if a == b {
		return Bool(true)
	}
	x, xc := a.rat()
	y, yc := b.rat()
	if xc && yc {
		return Bool(x.Cmp(y) == 0)
	}
	if a.id > b.id {
		a, b = b, a
	}
	return intern(&Term{op: "=", w: 0, args: []*Term{a, b}})
}

func realRef(t *Term) string {
	r, _ := t.rat()
	num, den := r.Num(), r.Denom()
	s := num.String()
	if num.Sign() < 0 {
		s = fmt.Sprintf("(- %s.0)", new(big.Int).Neg(num).String())
	} else {
		s += ".0"
	}
	if den.Cmp(big.NewInt(1)) == 0 {
		return s
	}
	return fmt.Sprintf("(/ %s %s.0)", s, den.String())
}
