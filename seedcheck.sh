#!/bin/bash
# seedcheck.sh <seed dir containing SEED/> <name> <property ids to check...>
# confirms a seeded change (applies, existing tests pass, demo fails with / passes without) in a scratch worktree of /repo HEAD,
# then runs the named checks against the patched worktree. Removes the worktree afterwards.
export GOFLAGS=-mod=mod GOPROXY=off GOSUMDB=off GOTOOLCHAIN=local
src=$1; name=$2; shift 2
wt=/tmp/sv_$name
git -C /repo worktree remove --force $wt 2>/dev/null
git -C /repo worktree add -q $wt HEAD || exit 2
place=$(head -1 $src/SEED/demo_test.go | sed 's/.*place in: *//; s/[` ]//g')
moddir=$wt
case "$place" in mpc/bls*) moddir=$wt/mpc/bls;; mpc/ps*) moddir=$wt/mpc/ps;; mpc/binance/ecdsa*) moddir=$wt/mpc/binance/ecdsa;; mpc/binance/eddsa*) moddir=$wt/mpc/binance/eddsa;; esac
pkgdir=$wt/$place
echo "== $name: demo goes to $place (module $moddir)"
cp $src/SEED/demo_test.go $pkgdir/zz_seed_demo_test.go
( cd $pkgdir && timeout 600 go test -count=1 -vet=off -run TestSeedDemo . > /tmp/sv_$name.clean.log 2>&1 ); rc_clean=$?
git -C $wt apply $src/SEED/patch.diff || { echo "PATCH DOES NOT APPLY"; exit 3; }
( cd $pkgdir && timeout 600 go test -count=1 -vet=off -run TestSeedDemo . > /tmp/sv_$name.patched.log 2>&1 ); rc_patched=$?
rm $pkgdir/zz_seed_demo_test.go
( cd $moddir && timeout 1500 go build ./... && timeout 1500 go test -count=1 -vet=off $(go list ./... | grep -v SEED) > /tmp/sv_$name.tests.log 2>&1 ); rc_tests=$?
echo "demo on clean tree rc=$rc_clean (want 0); demo with patch rc=$rc_patched (want != 0); existing tests with patch rc=$rc_tests (want 0)"
for p in "$@"; do
  ( cd /verif && VERIF_REPO=$wt ./check $p quick 2>&1 | cut -c1-220 | grep -v "^KNOWN-FINDING" | head -8 )
done
git -C /repo worktree remove --force $wt
