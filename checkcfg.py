# Per-property check configuration: which harnesses the symbolic engine runs, with which bounds.
# Every run executes the real functions of /repo's current tree from go/ssa; see DESIGN.md §4 for the argument per property.
#
# run keys: dir (package dir under /repo), files (harness/*.go.txt), entry, args (engine flags), params (-D constants),
#           shards/shard_depth, count (prefixes of "<kind>:<id>" that count for THIS property; None = everything),
#           expect_covers, bounds (free text for the evidence), tiers: {"thorough": {overrides}}, only_tiers

COMMON_ENV = [
    "go/ssa translation of the source is trusted; engine semantics validated by native replay of cover models and counterexamples",
    "z3 4.8.12 decides every query; 'unknown' or an engine limitation is reported as INCONCLUSIVE, never as a pass",
]

PROPS = {}

PROPS["C13"] = dict(
    level="model_checking",
    explanation="S1 single-call harnesses: encode then decode with every field symbolic; the solver is asked for any value that does not round-trip",
    assumptions=COMMON_ENV + [
        "digest length 32 (SHA-256), round <= 127 (newRBCEncoding panics above by contract)",
        "SHA-256 as an uninterpreted function with congruence and assumed collision freeness (topic derivation)",
        "ASN.1 stored data / public parameters: not encoded (reflection); outside the claim",
    ],
    outside=["views longer than 4 entries (quick) / 6 (thorough)", "encoding/asn1 itself", "end-to-end sessions with large ids (covered per layer by C06/C07 harnesses with 16-bit symbolic ids)"],
    runs=[
        dict(dir="threshold", files=["thr_c13.go.txt"], entry="verifH_C13_ack", count=["assert:C13-", "panic:"], expect_covers=["ack-roundtrip"],
             bounds={"sender": "all 65536", "round": "0..127", "digest": "all 32-byte strings"}),
        dict(dir="threshold", files=["thr_c13.go.txt"], entry="verifH_C13_payload", count=["assert:C13-", "panic:"], expect_covers=["payload"],
             bounds={"payload": "0..5 arbitrary bytes after the 255 prefix"}),
        dict(dir="threshold", files=["thr_c13.go.txt"], entry="verifH_C13_topic", count=["assert:C13-", "panic:"], expect_covers=["topic"],
             bounds={"lists": "two lists of equal length 0..3, all 16-bit values"}),
        dict(dir="disc", files=["disc_c13.go.txt"], entry="verifH_C13_disc", count=["assert:C13-", "panic:"], expect_covers=["disc-roundtrip"],
             bounds={"type": "1..3", "tag": "all 32-byte strings", "view": "0..4 entries, all 16-bit values"},
             tiers={"thorough": {"params": {"hMaxPeers": 6}, "bounds": {"view": "0..6 entries"}}}),
    ],
)
