# Per-property check configuration: which harnesses the symbolic engine runs, with which bounds.
# Every run executes the real functions of /repo's current tree from go/ssa; see DESIGN.md §4 for the argument per property.
#
# run keys: dir (package dir under /repo), files (harness/*.go.txt), entry, args (engine flags), params (-D constants),
#           shards/shard_depth, count (prefixes of "<kind>:<id>" that count for THIS property; None = everything),
#           expect_covers, bounds (free text for the evidence), tiers: {"thorough": {overrides}}, only_tiers

COMMON_ENV = [
    "go/ssa translation of the source is trusted; engine semantics validated by native replay of cover models and counterexamples",
    "z3 4.8.12 decides every query; 'unknown' or an engine limitation is reported as INCONCLUSIVE, never as a pass",
]

PROPS = {}

_DISC_ARGS_EARLY = ["-realhex", "-preempt", "0", "-redirect",
                    "(*sync.Map).Load=verifSMLoad,(*sync.Map).Store=verifSMStore,(*sync.Map).LoadOrStore=verifSMLoadOrStore,(*sync.Map).Range=verifSMRange,crypto/hmac.New=verifHmacNew,time.NewTicker=verifNewTicker,(*time.Ticker).Stop=verifTickerStop"]

PROPS["C13"] = dict(
    level="model_checking",
    explanation="S1 single-call harnesses: encode then decode with every field symbolic; the solver is asked for any value that does not round-trip",
    assumptions=COMMON_ENV + [
        "digest length 32 (SHA-256), round <= 127 (newRBCEncoding panics above by contract)",
        "SHA-256 as an uninterpreted function with congruence and assumed collision freeness (topic derivation)",
        "ASN.1 stored data / public parameters: through the opaque structure-preserving codec model (whole-session runs with symbolic party identifiers); encoding/asn1 itself is not executed",
    ],
    outside=["views longer than 4 entries (quick) / 6 (thorough)", "encoding/asn1 itself", "end-to-end sessions with large ids (covered per layer by C06/C07 harnesses with 16-bit symbolic ids)"],
    runs=[
        dict(dir="threshold", files=["thr_c13.go.txt"], entry="verifH_C13_ack", count=["assert:C13-", "panic:"], expect_covers=["ack-roundtrip"],
             bounds={"sender": "all 65536", "round": "0..127", "digest": "all 32-byte strings"}),
        dict(dir="threshold", files=["thr_c13.go.txt"], entry="verifH_C13_payload", count=["assert:C13-", "panic:"], expect_covers=["payload"],
             bounds={"payload": "0..5 arbitrary bytes after the 255 prefix"}),
        dict(dir="threshold", files=["thr_c13.go.txt"], entry="verifH_C13_topic", count=["assert:C13-", "panic:"], expect_covers=["topic"],
             bounds={"lists": "two lists of equal length 0..3, all 16-bit values"}),
        dict(dir="disc", files=["disc_c13.go.txt", "disc_model.go.txt"], entry="verifH_C13_prf", args=_DISC_ARGS_EARLY, count=["assert:C13-", "panic:"], expect_covers=["prf"],
             bounds={"identifiers": "every pair of distinct 16-bit values", "topic": "one symbolic byte + one fixed"}),
        dict(dir="disc", files=["disc_c13.go.txt"], entry="verifH_C13_disc", count=["assert:C13-", "panic:"], expect_covers=["disc-roundtrip"],
             bounds={"type": "1..3", "tag": "all 32-byte strings", "view": "0..4 entries, all 16-bit values"},
             tiers={"thorough": {"params": {"hMaxPeers": 6}, "bounds": {"view": "0..6 entries"}}}),
    ],
)

_RBC_ENV = COMMON_ENV + [
    "transport contract: `from` is never the receiver itself and is a session participant (the participant filter is checked separately at the threshold layer)",
    "two honest receivers (ids 1, 2); every other participant is Byzantine and may send any broadcast-class message, any acknowledgement (also about itself) and any point-to-point message",
    "honest parties send one payload per round, the same to everyone; digests are 8-byte strings with one symbolic byte (the package only needs len >= 8)",
]


def _rbc_bmc(count, quick, thorough):
    runs = []
    for (n, k, sh, depth) in quick:
        runs.append(dict(name="bmc N=%d k=%d" % (n, k), dir="rbc", files=["rbc_bmc.go.txt"], entry="verifH_C02_bmc", params={"hN": n, "hK": k}, shards=sh, shard_depth=depth,
                         count=count, expect_covers=(["equivocation-detected"] + (["both-delivered", "broadcast-delivered"] if k >= n else [])) if k >= 3 else [],
                         bounds={"N": n, "events": k, "rounds": "all uint8", "digest byte": "all", "receivers": "2 honest + %d Byzantine" % (n - 2)}, only_tiers=["quick"]))
    # directed runs: the classic equivocation (two payloads of one round to both honest parties, either order) followed by k free events
    for (n, k, sh, depth, tiers) in ((3, 3, 16, 5, ["quick", "thorough"]), (3, 4, 16, 6, ["thorough"]), (4, 3, 16, 5, ["thorough"])):
        runs.append(dict(name="equivocation prefix + bmc N=%d k=%d" % (n, k), dir="rbc", files=["rbc_bmc.go.txt"], entry="verifH_C02_bmc", params={"hN": n, "hK": k, "hPre": 1}, shards=sh, shard_depth=depth,
                         count=count, expect_covers=["equivocation-detected"],
                         bounds={"N": n, "prefix": "broadcaster 0 sends two different payloads of one round to both honest parties, per party in either order", "free events": k}, only_tiers=tiers))
    for (n, k, sh, depth) in thorough:
        runs.append(dict(name="bmc N=%d k=%d" % (n, k), dir="rbc", files=["rbc_bmc.go.txt"], entry="verifH_C02_bmc", params={"hN": n, "hK": k}, shards=sh, shard_depth=depth,
                         count=count, expect_covers=(["equivocation-detected"] + (["both-delivered", "broadcast-delivered"] if k >= n else [])) if k >= 3 else [],
                         bounds={"N": n, "events": k, "rounds": "all uint8", "digest byte": "all", "receivers": "2 honest + %d Byzantine" % (n - 2)}, only_tiers=["thorough"]))
    return runs


PROPS["C02"] = dict(
    level="model_checking",
    explanation="S2 bounded run on the real rbc.Receiver objects of two honest parties; the solver chooses and fills in every event (Byzantine broadcasts/acks, honest acks in any order, re-sends)",
    assumptions=_RBC_ENV,
    outside=["more than k events", "N > 5", "Byzantine behaviour of the two observed receivers"],
    runs=_rbc_bmc(["assert:C02-"], quick=[(3, 4, 16, 5), (4, 3, 4, 4)], thorough=[(3, 5, 16, 6), (4, 4, 16, 5), (5, 3, 4, 4)]),
)
_RBC_S3_PAIR = dict(name="S3 two-receiver invariant, one arbitrary step", dir="rbc", files=["rbc_pair.go.txt"], entry="verifH_C02_pair_step", s3=True, count=["assert:C02-", "assert:C03-"],
                    expect_covers=["end"], bounds={"N": 3, "digests": "{0,1}", "rounds": 1, "pre-state": "arbitrary pair of receiver states satisfying invariant I(1)-(7), 38 symbolic flags", "event": "any one"})
_RBC_S3_ONE = dict(name="S3 single-receiver invariant I1-I5, one arbitrary step", dir="rbc", files=["rbc_s3.go.txt"], entry="verifH_C03_step", s3=True, count=["assert:C03-"],
                   expect_covers=["end"], bounds={"N": 3, "senders": "{0,2}", "digests": "{0,1}", "pre-state": "arbitrary receiver state satisfying I1-I5 (29 symbolic flags)", "event": "any one"})
PROPS["C02"]["runs"].append(_RBC_S3_PAIR)

PROPS["C03"] = dict(
    level="model_checking",
    explanation="same bounded runs as C02 with integrity monitors on the hand-over callback (authentic object, participant, at most once, non-empty, point-to-point as received)",
    assumptions=_RBC_ENV,
    outside=["more than k events", "N > 5"],
    runs=_rbc_bmc(["assert:C03-", "panic:"], quick=[(3, 4, 16, 5), (4, 3, 4, 4)], thorough=[(3, 5, 16, 6), (4, 4, 16, 5), (5, 3, 4, 4)]),
)
PROPS["C03"]["runs"].append(_RBC_S3_ONE)


def _rbc_sys(n, s, r, shards=1, depth=4, tiers=("quick", "thorough"), same=0):
    return dict(name="system run N=%d senders=%d rounds=%d%s" % (n, s, r, " identical payloads" if same else ""), dir="rbc", files=["rbc_sys.go.txt"], entry="verifH_C04_sys", params={"hN": n, "hS": s, "hR": r, "hSame": same},
                shards=shards, shard_depth=depth, count=["assert:C04-", "panic:", "deadlock:"], expect_covers=["all-delivered"], only_tiers=list(tiers),
                bounds={"N": n, "broadcasting parties": s, "rounds": r, "point-to-point messages": 1, "payloads": "identical for all broadcasts" if same else "distinct", "delivery orders": "all (symbolic choice of the next in-flight message until none is left)"})


PROPS["C04"] = dict(
    level="model_checking",
    explanation="S3: the receiver state after any received subset is the canonical state of that subset (one arbitrary step from an arbitrary canonical state) => order independence for histories of any length; "
                "S2: complete system runs of N real receivers wired by their real ack callbacks, every delivery order",
    assumptions=COMMON_ENV + ["all participants honest: one payload per sender and round, acknowledgements only as emitted by the real BroadcastAck callback, every message delivered exactly once by the transport",
                              "acknowledgements addressed to the original sender are delivered immediately (they are ignored; asserted)"],
    outside=["N > 4 in system runs (S3 step: N = 3)", "more than 2 senders / 2 rounds", "the threshold-layer wrappers (covered by the C02/C10 threshold harnesses)"],
    runs=[
        dict(name="S3 order-independence step", dir="rbc", files=["rbc_c04.go.txt"], entry="verifH_C04_step", count=["assert:C04-", "panic:"], expect_covers=["end"], s3=True,
             bounds={"N": 3, "receiver": 1, "messages due": 6, "pre-state": "canonical state of an arbitrary received subset (6 symbolic flags)", "event": "any message not yet received"}),
        _rbc_sys(2, 2, 2), _rbc_sys(3, 1, 1), _rbc_sys(3, 2, 1, shards=16, depth=3),
        _rbc_sys(3, 1, 2, shards=16, depth=3), _rbc_sys(4, 1, 1, shards=16, depth=3, tiers=("thorough",)),
        # the digest binds the payload only: several senders / rounds broadcasting byte-identical payloads
        _rbc_sys(2, 2, 2, same=1), _rbc_sys(3, 2, 1, shards=16, depth=3, same=1), _rbc_sys(3, 1, 2, shards=16, depth=3, same=1),
    ],
)

_C10_ASSUME = COMMON_ENV + [
    "buffers handed in have cap == len (what a transport that allocates exactly produces; with spare capacity s[:8] reads stale bytes instead of panicking)",
    "Source != SelfID (transport contract)",
    "loggers are no-op implementations, but the ARGUMENTS of log calls are evaluated by the SSA like any other expression",
]
PROPS["C10"] = dict(
    level="model_checking",
    explanation="S1: one harness per network-facing entry point; input bytes, lengths, message type, source and session state symbolic; the assertion is the engine's built-in run-time failure check "
                "(nil dereference, index/slice bounds, failed type assertion, nil map write, division by zero, explicit panic, deadlock) plus 'the call returns'",
    assumptions=_C10_ASSUME,
    outside=["inputs longer than the stated bounds", "library internals (asn1, protobuf, TLS, curve arithmetic) which are modelled", "resource exhaustion"],
    max_replays=40,
    runs=[
        dict(name="Scheme.HandleMessage", dir="threshold", files=["thr_c10.go.txt"], entry="verifH_C10_handle", count=["panic:", "deadlock:", "assert:C10-"],
             expect_covers=["reached-rbc", "reached-sync", "returned"],
             bounds={"topic length": "{0,3,7,8,32}", "data length": "0..12", "type/source/bytes": "all", "session": "handlers registered for the topic or not; classifier result arbitrary"}),
        dict(name="Scheme.HandleMessage -> real rbcFilter/threadSafeRBC/rbc.Receiver registered by the real prepareSigning (LoudScheme wiring)", dir="threshold", files=["thr_c10.go.txt"],
             entry="verifH_C10_handle_rbc", args=["-realhex"], params={"hMsgs": 2, "hLenMode": 0}, shards=16, shard_depth=7, count=["panic:", "deadlock:", "assert:C10-"],
             expect_covers=["reached-backend", "returned"],
             bounds={"messages in a row": 2, "data length": "{0,1,3,4,11,12}", "source": "any 16-bit id but self", "bytes": "all", "classifier": "arbitrary answers, round <= 127", "N": 3},
             tiers={"thorough": {"params": {"hMsgs": 2, "hLenMode": 1}, "bounds": {"data length": "0..12"}}}),
    ],
)

_C06_B = {"nodes": "3 configured (self and one peer participate, third is a possible replica)", "node ids / party ids": "all 16-bit values, non-identity maps, two nodes of one party allowed",
          "map iteration order": "every order (symbolic)"}
PROPS["C06"] = dict(
    level="model_checking",
    explanation="S1 on the real computeMembership/partyIDsByUniversalIDs/initializeDKG/initializeThresholdSigning/prepareSigning and the closures they create; "
                "S2 through the real KeyGen/runDKG with scripted synchronisers (goroutines, select, context) for the DKG forward closure; ids and map iteration order symbolic",
    assumptions=COMMON_ENV + ["recording stubs for KeyGenerator/Signer/ReliableBroadcast/Synchronizer (the property is about what the orchestrator hands to them)",
                              "context.WithCancel redirected to a 30-line harness context with the same cancellation semantics", "one canonical goroutine schedule for the KeyGen run (the translation closures are schedule independent)"],
    outside=["more than three configured nodes", "sessions larger than two participants"],
    runs=[
        dict(dir="threshold", files=["thr_c06.go.txt"], entry="verifH_C06_dkg", args=["-maporder", "-realhex"], count=["assert:C06-", "panic:"], expect_covers=["end"], bounds=_C06_B, replay_repeat=40),
        dict(dir="threshold", files=["thr_c06.go.txt"], entry="verifH_C06_sign", args=["-maporder", "-realhex"], count=["assert:C06-", "panic:"], expect_covers=["end"], bounds=_C06_B, replay_repeat=40),
        dict(dir="threshold", files=["thr_c06.go.txt"], entry="verifH_C06_dup", args=["-maporder", "-realhex"], count=["assert:C06-", "panic:"], expect_covers=["accepted", "refused"],
             bounds={"selected nodes": "2 or 3 of 3", "ids": "all 16-bit values"}),
        dict(dir="threshold", files=["thr_c06.go.txt"], entry="verifH_C06_keygen", args=["-maporder", "-realhex", "-redirect", "context.WithCancel=verifWithCancel", "-preempt", "0", "-det"],
             count=["assert:C06-", "panic:", "deadlock:"], expect_covers=["end", "refused"], bounds=_C06_B, replay_repeat=40, shards=8, shard_depth=5),
    ],
)

_THR_CONC = ["-redirect", "context.WithCancel=verifWithCancel", "-realhex"]
PROPS["C12"] = dict(
    level="model_checking",
    explanation="S2 on the real Scheme.Sign / KeyGen (goroutines, select, context, mutexes executed by the engine's scheduler; which runnable goroutine continues when one blocks is a symbolic choice) "
                "with scripted synchroniser / reliable-broadcast / backend stubs whose outcome is symbolic; the handler tables are read in-package after each return and a follow-up call is made",
    assumptions=COMMON_ENV + ["scripted Synchronizer/ReliableBroadcast/Signer/KeyGenerator stubs (outcomes: ok, first barrier fails, second barrier fails, share data unusable, backend fails)",
                              "context.WithCancel redirected to a harness context; the caller's context expires at quiescence (when nothing else can run)",
                              "goroutine switches at blocking points and goroutine exit (preemption bound 0 quick / 1 thorough)"],
    outside=["more than three API calls per run", "context expiry racing with a still running callback (expiry is modelled at quiescence only)", "sessions with a real backend"],
    runs=[
        dict(dir="threshold", files=["thr_c12.go.txt"], entry="verifH_C12_sign", args=_THR_CONC + ["-preempt", "0"], count=["assert:C12-", "assert:C01-", "panic:", "deadlock:"], expect_covers=["end"],
             shards=8, shard_depth=4, bounds={"calls": "Sign, then Sign on the same topic", "outcome of the first": "8 symbolic outcomes (ok; either barrier fails; share data unusable; signer fails; either barrier or the signing protocol never completes until the context ends)", "schedules": "all choices of the next goroutine at blocking points"}),
        dict(dir="threshold", files=["thr_c12.go.txt"], entry="verifH_C12_keygen", args=_THR_CONC + ["-preempt", "0", "-det"], count=["assert:C12-", "assert:C11-", "panic:", "deadlock:"],
             expect_covers=["end"], bounds={"calls": "KeyGen, then KeyGen", "outcome of the first": "ok / first barrier fails / second barrier fails / backend fails / duplicate party / either barrier or the backend protocol never completes until the context ends", "schedule": "canonical"}),
        dict(dir="threshold", files=["thr_c12.go.txt"], entry="verifH_C12_concurrent", args=_THR_CONC + ["-preempt", "0", "-det"], count=["assert:C12-", "panic:", "deadlock:"],
             expect_covers=["end", "second-refused", "second-independent"],
             bounds={"calls": "a Sign waiting at its first barrier; a second Sign on the same or another topic (symbolic); synchroniser traffic for the first; then the first completes; late traffic", "schedule": "canonical"}),
    ],
)

_MSG_ENV = COMMON_ENV + ["the Box's ticker never fires (injected NewTicker); the epoch counter is written directly by the harness (arbitrary non-decreasing values)",
                         "recording MessageHandler / ForwardSend stubs"]
PROPS["C14"] = dict(
    level="model_checking",
    explanation="S2 with a symbolic thread schedule: the real Box.HandleMessage x2 (one sender, one topic) in one goroutine, the first Box.Send on the topic in another (optionally a third receiver), "
                "context switches at every mutex operation chosen by the solver under a preemption bound; ghost call intervals separate 'during the first send' from 'before/after'",
    assumptions=_MSG_ENV + ["switching only at synchronisation operations is complete for data-race-free code (race freedom of the box is examined by C20)",
                            "a message parked until the next Send on the topic counts as late, not lost (one further Send is made before the verdict)"],
    outside=["more than 3 goroutines / 3 messages", "more than 2 (quick) / 3 (thorough) preemptions", "the GC path racing with delivery"],
    runs=[
        dict(dir="msg", files=["msg_c14.go.txt"], entry="verifH_C14", args=["-realhex", "-acqonly", "-preempt", "2"], replay_args=["-instr", "msgbox.go"], shards=16, shard_depth=5,
             count=["assert:C14-", "panic:", "deadlock:"], expect_covers=["end", "received-during-first-send"], replay_repeat=3,
             bounds={"goroutines": "2 + main (+ the box's clock daemon, blocked forever)", "messages": 2, "preemptions": "<= 2", "switch points": "before every Lock/RLock and channel operation, at blocking and goroutine exit (releases are left-movers)"},
             tiers={"thorough": {"args": ["-realhex", "-acqonly", "-preempt", "3"], "bounds": {"preemptions": "<= 3"}}}),
        dict(dir="msg", files=["msg_c14.go.txt"], entry="verifH_C14", args=["-realhex", "-acqonly", "-preempt", "1"], params={"hThird": 1}, replay_args=["-instr", "msgbox.go"], shards=16, shard_depth=5,
             count=["assert:C14-", "panic:", "deadlock:"], expect_covers=["end"], replay_repeat=3,
             bounds={"goroutines": "3 + main", "messages": 3, "third message": "other sender, same or other topic (symbolic)", "preemptions": "<= 1"},
             tiers={"thorough": {"args": ["-realhex", "-acqonly", "-preempt", "2"], "bounds": {"preemptions": "<= 2"}}}),
    ],
)
PROPS["C15"] = dict(
    level="model_checking",
    explanation="S2, sequential: k symbolic operations (receive from one of two senders on one of three topics, Send on a topic, jump of the epoch clock) on the real Box with small limits; "
                "a ghost model says which messages were within the limits when they arrived; bookkeeping maps are read in-package",
    assumptions=_MSG_ENV + ["MaxInFlightTopicsBySender = 1 (2 thorough), GCExpire = 4 sweep periods", "wall clock symbolic (any non-decreasing instants in 2020..2096); the code no longer reads it after the expiry fix"],
    outside=["more than k operations", "the per-topic message limit of 100 beyond the single concrete burst scenario", "the real ticker goroutine"],
    runs=[
        dict(name="release/bounded/sequential exactly-once", dir="msg", files=["msg_c15.go.txt"], entry="verifH_C15_seq", args=["-realhex", "-preempt", "0"], params={"hK": 4, "hMax": 1}, shards=16, shard_depth=5,
             count=["assert:C15-", "panic:", "deadlock:"], expect_covers=["end"], bounds={"operations": 4, "topics": 3, "senders": 2, "MaxInFlightTopicsBySender": 1, "epoch": "constant (nothing may expire)"},
             tiers={"thorough": {"params": {"hK": 5, "hMax": 2}, "bounds": {"operations": 5, "MaxInFlightTopicsBySender": 2}}}),
        dict(name="expiry and release after idle periods", dir="msg", files=["msg_c15.go.txt"], entry="verifH_C15_gc", args=["-realhex", "-preempt", "0"], params={"hK": 4, "hMax": 1}, shards=16, shard_depth=5,
             count=["assert:C15-", "assert:C14-", "panic:", "deadlock:"], expect_covers=["end"], bounds={"operations": 4, "epoch jumps": "any 0..1000 epochs each, start epoch < 1000", "final": "two Sends on an unrelated topic, each > 2x expiry later"}),
        dict(name="burst of 103 messages of one sender on one topic", dir="msg", files=["msg_c15.go.txt"], entry="verifH_C15_limit", args=["-realhex", "-preempt", "0", "-unwind", "128"],
             count=["assert:C15-", "panic:", "deadlock:"], expect_covers=["end"], bounds={"messages": 103}),
    ],
)

_DISC_RD = "(*sync.Map).Load=verifSMLoad,(*sync.Map).Store=verifSMStore,(*sync.Map).LoadOrStore=verifSMLoadOrStore,(*sync.Map).Range=verifSMRange,crypto/hmac.New=verifHmacNew,time.NewTicker=verifNewTicker,(*time.Ticker).Stop=verifTickerStop"
_DISC_ARGS = ["-realhex", "-redirect", _DISC_RD, "-preempt", "0"]
_DISC_ENV = COMMON_ENV + ["sync.Map modelled by a 60-line linearizable association list in harness Go (engine redirects Load/Store/LoadOrStore/Range); natively the real sync.Map is used",
                          "crypto/hmac modelled as SHA-256(key || 0xFF || data) with SHA-256 an uninterpreted collision-free function (a PRF as far as the code is concerned)",
                          "fmt.Sprintf(\"%v\", []uint16) modelled as an injective function of the slice", "time.NewTicker redirected to a harness ticker that fires when the harness says so",
                          "identifier universe {1, 7, 300, 65535} (both byte boundaries of the 16-bit range) in the Synchronize/system harnesses; all 16-bit values in the view lemma"]
PROPS["C07"] = dict(
    level="model_checking",
    explanation="Lemma-wise on the real code: L1 Member.HandleMessage from an arbitrary topic state (what one message may change), L2 intersectedView/myMemberViewSorted for arbitrary announced views, "
                "L3 the real Synchronize against an arbitrary environment that delivers any structured peer message or a tick between its blocking points, and bounded honest system runs; "
                "composition (monotone views + listed peers announced exactly this list + completion only at the expected size => identical lists) is argued in DESIGN.md",
    assumptions=_DISC_ENV + ["transport authenticates `from`; from != self", "context expiry happens at quiescence (when nothing else can run)"],
    outside=["liveness beyond the bounded honest runs", "universes larger than 4", "more than 3 environment events around one Synchronize call", "TOCTOU interleavings inside intersectedView (they affect liveness only, see DESIGN.md)"],
    runs=[
        dict(name="L2 view lemma", dir="disc", files=["disc_c07.go.txt", "disc_model.go.txt"], entry="verifH_C07_view", args=_DISC_ARGS, count=["assert:C07-", "panic:"], expect_covers=["agreed", "no-agreement-yet"],
             bounds={"self/peers": "all 16-bit ids", "announcements": "0..2 peers", "views": "length 0..3, all 16-bit entries"}),
        dict(name="L1 HandleMessage lemma", dir="disc", files=["disc_c07.go.txt", "disc_model.go.txt"], entry="verifH_C07_handle", args=_DISC_ARGS + ["-det"], shards=16, shard_depth=6,
             count=["assert:C07-", "panic:"], expect_covers=["view-stored", "dropped", "query-answered", "response"],
             bounds={"pre-state": "each of two peers announced before or not (arbitrary view), responded before or not", "message": "any type, tag of any universe member, from any peer or a non-member, view length 0..3"}),
        dict(name="L3 Synchronize vs arbitrary environment", dir="disc", files=["disc_c07.go.txt", "disc_model.go.txt"], entry="verifH_C07_sync", args=_DISC_ARGS, params={"hEvents": 2, "hSeed": 0}, shards=16, shard_depth=6,
             count=["assert:C07-", "panic:", "deadlock:"], expect_covers=["completed", "gave-up"],
             bounds={"expected members": "2 or 3", "environment events": 2, "event": "tick, or any structured message (type, view of length 0..3 over the universe) from any of 3 peers, at any blocking point"},
             tiers={"thorough": {"params": {"hEvents": 3, "hSeed": 0}, "bounds": {"environment events": 3}}}),
        dict(name="L3 with announcements already in when Synchronize first looks", dir="disc", files=["disc_c07.go.txt", "disc_model.go.txt"], entry="verifH_C07_sync", args=_DISC_ARGS, params={"hEvents": 1, "hSeed": 1}, shards=16, shard_depth=6,
             count=["assert:C07-", "panic:", "deadlock:"], expect_covers=["completed", "gave-up"],
             bounds={"expected members": "2 or 3", "prefix": "any subset of the 3 peers announces one common symbolic view (length 0..3) back to back", "environment events": 1},
             tiers={"thorough": {"params": {"hEvents": 2, "hSeed": 1}, "bounds": {"environment events": 2}}}),
        dict(name="honest system run, 2 members, every delivery order", dir="disc", files=["disc_c07.go.txt", "disc_model.go.txt"], entry="verifH_C07_sys", args=_DISC_ARGS + ["-det"], params={"hParties": 2},
             count=["assert:C07-", "panic:", "deadlock:"], expect_covers=["all-completed"], bounds={"members": 2, "delivery": "any in-flight message next; tickers fire whenever nothing is in flight", "rounds": 24}),
        dict(name="honest system run, 3 members, FIFO delivery", dir="disc", files=["disc_c07.go.txt", "disc_model.go.txt"], entry="verifH_C07_sys", args=_DISC_ARGS + ["-det"], params={"hParties": 3, "hRounds": 60, "hWindow": 1},
             count=["assert:C07-", "panic:", "deadlock:"], expect_covers=["all-completed"], bounds={"members": 3, "delivery": "FIFO", "rounds": 60}),
    ],
)
PROPS["C10"]["runs"] += [
    dict(name="disc.Member.HandleMessage", dir="disc", files=["disc_c10.go.txt", "disc_model.go.txt"], entry="verifH_C10_disc_handle", args=_DISC_ARGS + ["-det"], params={"hMsgs": 2, "hLenMode": 0}, shards=16, shard_depth=6,
         count=["panic:", "deadlock:", "assert:C10-"], expect_covers=["returned"],
         bounds={"messages in a row": 2, "length": "{0,32,33,34,35,37}", "bytes/source": "all", "state": "synchronising on a topic (peer tags precomputed by the real code) or idle"},
         tiers={"thorough": {"params": {"hMsgs": 1, "hLenMode": 1}, "bounds": {"messages in a row": 1, "length": "0..41"}}}),
    dict(name="disc.decodeTagAndMembershipList", dir="disc", files=["disc_c10.go.txt", "disc_model.go.txt"], entry="verifH_C10_decode", args=_DISC_ARGS, count=["panic:"], expect_covers=["decoded", "rejected"],
         bounds={"length": "0..38", "bytes": "all"}),
]

_NET_RD = ("github.com/IBM/TSS/net.extractTLSBinding=verifExtractTLSBinding,encoding/pem.Decode=verifPemDecode,crypto/x509.ParseCertificate=verifParseCert,"
           "crypto/ecdsa.VerifyASN1=verifVerifyASN1,(*crypto/tls.Conn).Write=verifConnWrite,(*crypto/tls.Conn).Close=verifConnClose,crypto/tls.Dial=verifDial,time.Unix=verifTimeUnix,"
           "wrap:*crypto/tls.Conn=verifWrapConn")
_NET_ARGS = ["-realhex", "-redirect", _NET_RD, "-preempt", "0"]
_NET_REPLAY = ["-nativeredirect"]
_NET_ENV = COMMON_ENV + ["TLS connection modelled as a byte stream with a per-connection exporter constant (inbound: a net.Conn implementation; outbound: (*tls.Conn).Write/Close redirected to the same model)",
                         "pem.Decode, x509.ParseCertificate, ecdsa.VerifyASN1 are uninterpreted recording stubs (parse may fail; key type ECDSA or RSA; verification verdict arbitrary); pem.Decode skips a preamble only if it ends in a newline",
                         "encoding/asn1 as an opaque structure-preserving codec (an arbitrary well-formed Handshake value; truncation at structural cut points)",
                         "SHA-256 uninterpreted, collision free; hex.EncodeToString executed from its SSA",
                         "native replays run the real net.go with the same stubs substituted by a generated, type-directed call rewrite of the current source (go test -overlay)"]
PROPS["C16"] = dict(
    level="model_checking",
    explanation="S1 on the real handleConn/authenticateConnection/Handshake.Read/readMsg: every handshake field and its length symbolic, two registered (domain, identity) pairs, "
                "truncation and chunked reads; assertions on what must hold whenever a message is attributed",
    assumptions=_NET_ENV,
    outside=["TLS, X.509 and ECDSA themselves (assumed correct)", "timestamp freshness (only logged by the code)", "fields longer than 2-3 bytes"],
    runs=[
        dict(dir="net", files=["net_c16.go.txt", "net_model.go.txt"], entry="verifH_C16_conn", args=_NET_ARGS, replay_args=_NET_REPLAY, params={"hDomMax": 2, "hIdMax": 3}, shards=16, shard_depth=5,
             count=["assert:C16-", "panic:", "deadlock:"], expect_covers=["attributed", "no-attributed-message"],
             bounds={"registered pairs": 2, "domain": "0..2 bytes (the empty domain is the default one)", "identity": "2..3 bytes", "binding/signature": "2 bytes", "reads": "whole or byte-wise", "truncation": "5 structural cut points"}),
    ],
)
PROPS["C16"]["runs"][0]["params"] = {"hDomMax": 2, "hIdMax": 3, "hChunk": 0}
PROPS["C16"]["runs"][0]["tiers"] = {"thorough": {"params": {"hDomMax": 2, "hIdMax": 3, "hChunk": 1}}}
PROPS["C16"]["runs"][0]["bounds"]["reads"] = "whole (quick) / whole or byte-wise (thorough)"

_NET_RD17 = _NET_RD + ",time.NewTimer=verifNewTimer,(*time.Timer).Stop=verifTimerStop"
_NET_ARGS17 = ["-realhex", "-redirect", _NET_RD17, "-preempt", "0"]
PROPS["C17"] = dict(
    level="model_checking",
    explanation="S1: real remoteParty.send -> byte-stream model -> real readMsg round trip with symbolic type/topic/payload/length/chunking, length-limit refusal; "
                "S2: real SocketRemoteParties.Send from two goroutines, real sendMessages/maybeConnect writer goroutines, a peer that is unreachable or whose connection breaks at a symbolic write, "
                "queue-full timeout; all choices of the next goroutine at blocking points",
    assumptions=_NET_ENV + ["time.NewTimer redirected to a harness timer fired at quiescence; time.Sleep wakes when nothing else can run",
                            "queue capacities reduced (4 and 1) by constructing remoteParty directly"],
    outside=["real sockets and TLS", "payloads larger than 3 (8 thorough) bytes: only the length arithmetic of the 20 MB limit is checked, on the refusal side; accepting frames between 64 bytes and the limit is not encoded (the engine does not allocate such buffers)",
             "preemptive interleavings inside send (single writer goroutine per destination by construction)"],
    runs=[
        dict(dir="net", files=["net_c17.go.txt", "net_model.go.txt"], entry="verifH_C17_frame", args=_NET_ARGS17, replay_args=_NET_REPLAY, params={"hMaxData": 3},
             count=["assert:C17-", "panic:", "deadlock:"], expect_covers=["end"], bounds={"payload": "0..3 bytes", "type": "all 256", "topic": "absent or 32 symbolic bytes (legal combinations)", "reads": "whole / 1 / 2 bytes at a time"},
             tiers={"thorough": {"params": {"hMaxData": 8}, "bounds": {"payload": "0..8 bytes"}}}),
        dict(dir="net", files=["net_c17.go.txt", "net_model.go.txt"], entry="verifH_C17_limit", args=_NET_ARGS17, replay_args=_NET_REPLAY,
             count=["assert:C17-", "panic:", "deadlock:"], expect_covers=["accepted", "refused"], bounds={"length field": "all values > 20 MB (refused) and 0..2 (accepted)", "type": "all"}),
        dict(dir="net", files=["net_c17.go.txt", "net_model.go.txt"], entry="verifH_C17_conc", args=_NET_ARGS17, replay_args=_NET_REPLAY, shards=4, shard_depth=3,
             count=["assert:C17-", "panic:", "deadlock:"], expect_covers=["end"], bounds={"senders": "2 goroutines, 3 messages, 2 destinations", "peer 2": "unreachable, or its k-th write fails (k symbolic)", "schedules": "all choices at blocking points"}),
        dict(dir="net", files=["net_c17.go.txt", "net_model.go.txt"], entry="verifH_C17_stalled", args=_NET_ARGS17, replay_args=_NET_REPLAY,
             count=["assert:C17-", "panic:", "deadlock:"], expect_covers=["returned", "enqueue-timed-out"], bounds={"scenario": "peer never reachable, queue capacity 1, second Send waits until the enqueue timer fires"}),
    ],
)
PROPS["C10"]["runs"] += [
    dict(name="net.handleConn with arbitrary bytes", dir="net", files=["net_c16.go.txt", "net_model.go.txt"], entry="verifH_C10_net_conn", args=_NET_ARGS + ["-asn1havoc"], replay_args=_NET_REPLAY,
         count=["panic:", "deadlock:", "assert:C10-"], expect_covers=["returned"], no_native_replay=False,
         shards=16, shard_depth=4, bounds={"stream": "announced handshake length 0..8, arbitrary body, one frame header announcing 0..4 bytes with arbitrary type, 36 arbitrary bytes, cut at any position", "asn1": "malformed, or an arbitrary Handshake value"}),
]

# ---- algebra tier: the real mpc/bls and mpc/ps code over the exponent-representation model of the mathlib driver
_BLS_OV = "@MATHLIB_BLS@/zz_verif_model.go=@VERIF@/models/mathlib_overlay.go.txt"
_PS_OV = "@MATHLIB_PS@/zz_verif_model.go=@VERIF@/models/mathlib002_overlay.go.txt"
_BLS_ARGS = ["-z3", "z3-new", "-noinit", "-overlay", _BLS_OV, "-redirect", "sort.Slice=verifSortSlice", "-det", "-preempt", "0"]
_PS_ARGS = ["-z3", "z3-new", "-noinit", "-det", "-preempt", "0", "-overlay", _PS_OV, "-redirect", "github.com/IBM/TSS/mpc/ps.psuedoRandomG2=verifStubG2,sort.Slice=verifSortSlice"]
_ALG_ENV = COMMON_ENV + [
    "the pairing library is replaced below the mathlib driver interface by an exponent-representation model whose scalars are SMT Reals (field Q): identities with denominators that are products of differences of evaluation points (< 2^16 < r) valid over Q are valid in Z_r",
    "honest random scalars and hash-to-group / hash-to-scalar outputs are non-zero; hash functions are collision free (uninterpreted with congruence)",
    "encodings of group/field elements are opaque tagged bytes (equal iff the elements are equal); byte lengths and subgroup membership are not modelled",
    "encoding/asn1 is an opaque structure-preserving codec",
    "z3 5.1.0 (z3-new) decides the QF_NRA queries (z3 4.8.12 times out on some of them)",
    "native replays run the real package code over the same model computed in F_r (r = BN254 group order) with the solver's rational values mapped to num * den^-1 mod r",
]


def _bls(entry, files, params=None, name=None, count=None, covers=None, bounds=None, extra=None, tiers=None, only=None, **kw):
    d = dict(name=name or entry, dir="mpc/bls", files=files + ["bls_common.go.txt", "bls_model.go.txt"], entry=entry, args=_BLS_ARGS + (extra or []), params=params or {},
             count=count, expect_covers=covers or [], bounds=bounds or {}, tiers=tiers or {})
    if only:
        d["only_tiers"] = only
    d.update(kw)
    return d


def _nt(nmax):
    return [(n, t) for n in range(2, nmax + 1) for t in range(2, n + 1)]


PROPS["C18"] = dict(
    level="model_checking",
    explanation="S1 on the real SSS.Gen/ValueAt/reconstruct/lagrangeCoefficient/chooseKoutOfN/localCreatePublicKeys/localAggregatePublicKeys/localAggregateSignatures/assembleThresholdPublicKey "
                "with all polynomial coefficients symbolic (Reals): each polynomial identity is one QF_NRA query, so it holds for every dealt polynomial, not for sampled ones; subset coverage is a query over an arbitrary bitmask",
    assumptions=_ALG_ENV,
    outside=["n > 5 (6 thorough)", "the ps copy of sss.go/choose.go beyond the threshold-PS flow of C08 (same source text)", "Z_r versus Q as stated in the assumptions"],
    runs=[_bls("verifH_C18_bls", ["bls_c18.go.txt"], params={"hNn": n, "hTt": t}, name="reconstruction/aggregation n=%d t=%d" % (n, t), count=["assert:C18-", "panic:"], covers=["end"],
               bounds={"n": n, "t": t, "subsets": "all C(n,t) the real enumeration produces", "coefficients": "arbitrary"}, only=(["quick", "thorough"] if n <= 5 else ["thorough"])) for (n, t) in _nt(6)]
    + [_bls("verifH_C18_detect", ["bls_c18b.go.txt"], params={"hNn": n, "hTt": t}, name="detection n=%d t=%d" % (n, t), count=["assert:C18-", "panic:"], covers=["consistent", "perturbed"],
            bounds={"n": n, "t": t, "perturbed party": "any one (symbolic), by any non-zero amount"}, only=(["quick", "thorough"] if n <= 4 else ["thorough"])) for (n, t) in _nt(5) if t < n],
)

PROPS["C01"] = dict(
    level="model_checking",
    explanation="S2 on the real TBLS.Init/KeyGen/OnMsg of n parties (goroutines, condition variables, context monitors executed by the engine), then the real SetShareData/Sign/ThresholdPK/Verifier.Init/AggregateSignatures/Verify "
                "for every signer set of size >= t and a symbolic digest; all polynomial coefficients symbolic, so each assertion is decided for every DKG randomness; delivery orders that keep links FIFO explored by symbolic choice; "
                "orchestrated signing: pass-through of the signer's result is asserted in the C12 harness on the real Scheme.Sign",
    assumptions=_ALG_ENV + ["canonical goroutine schedule (when a goroutine blocks the lowest-numbered runnable one continues); message delivery order symbolic where stated",
                            "delivery below OnMsg is the subject of C02-C04, list agreement of C07, silent-mode buffering of C14"],
    outside=["the real curve", "n > 3 (4 thorough)", "preemptive thread interleavings of KeyGen and OnMsg (race freedom is C20's subject)", "the binance backends", "loud/silent full-stack runs"],
    runs=[
        _bls("verifH_C01_keygen", ["bls_c01.go.txt"], params={"kN": 2, "kT": 2, "kOrder": 1}, name="DKG + signing n=2 t=2, all link-FIFO delivery orders", count=["assert:C01-", "panic:", "deadlock:"], covers=["end"],
             bounds={"n": 2, "t": 2, "delivery": "every order that keeps links FIFO", "signer sets": "all of size >= t", "digest": "2 symbolic bytes"}),
        _bls("verifH_C01_keygen", ["bls_c01.go.txt"], params={"kN": 3, "kT": 2, "kOrder": 0}, name="DKG + signing n=3 t=2, send-order delivery", count=["assert:C01-", "panic:", "deadlock:"], covers=["end"],
             bounds={"n": 3, "t": 2, "delivery": "in send order", "signer sets": "all of size >= t"}),
        _bls("verifH_C01_keygen", ["bls_c01.go.txt"], params={"kN": 3, "kT": 3, "kOrder": 0}, name="DKG + signing n=3 t=3", count=["assert:C01-", "panic:", "deadlock:"], covers=["end"],
             bounds={"n": 3, "t": 3, "delivery": "in send order"}),
        _bls("verifH_C01_keygen", ["bls_c01.go.txt"], params={"kN": 3, "kT": 2, "kOrder": 1}, name="DKG + signing n=3 t=2, all link-FIFO delivery orders", count=["assert:C01-", "panic:", "deadlock:"], covers=["end"],
             bounds={"n": 3, "t": 2, "delivery": "every order that keeps links FIFO (3456 orders under the canonical goroutine schedule)"}, shards=16, shard_depth=5, only=["thorough"]),
        _bls("verifH_C01_keygen", ["bls_c01.go.txt"], params={"kN": 4, "kT": 3, "kOrder": 0}, name="DKG + signing n=4 t=3", count=["assert:C01-", "panic:", "deadlock:"], covers=["end"],
             bounds={"n": 4, "t": 3, "delivery": "in send order"}, only=["thorough"]),
        _bls("verifH_C01_keygen", ["bls_c01.go.txt"], params={"kN": 4, "kT": 2, "kOrder": 0}, name="DKG + signing n=4 t=2", count=["assert:C01-", "panic:", "deadlock:"], covers=["end"],
             bounds={"n": 4, "t": 2, "delivery": "in send order"}, only=["thorough"]),
    ],
)

PROPS["C10"]["runs"] += [
    _bls("verifH_C10_bls_msg", ["bls_c10.go.txt"], name="TBLS.ClassifyMsg / OnMsg", count=["panic:", "deadlock:"], covers=["classifier-accepts", "classifier-rejects", "handled"],
         bounds={"payload": "0..3 arbitrary bytes", "state": "after Init (before Init is covered by the orchestrator ordering check of C12)", "from": "all 16-bit"}),
    _bls("verifH_C10_bls_verifier", ["bls_c10v.go.txt"], name="bls.Verifier.Init / Verify / AggregateSignatures", extra=["-asn1havoc"], count=["panic:", "deadlock:"], covers=["parameters-accepted", "parameters-rejected", "returned"],
         bounds={"public parameters": "malformed, or an arbitrary PublicParams value (vectors of length 0..2, elements well-formed or raw)", "signature": "well-formed element or 2 raw bytes"}, no_native_replay=True),
]
PROPS["C11"] = dict(
    level="model_checking",
    explanation="S2 on the real TBLS.KeyGen of 3 parties with a symbolic (peer, k): every message of that peer from its k-th on is lost; the context expires at quiescence; "
                "plus the real Scheme.Sign with failing barriers / unusable share data (shared with C12)",
    assumptions=_ALG_ENV + ["context expiry is forced when nothing else can run (and not earlier)", "canonical goroutine schedule"],
    outside=["more than one faulty peer", "real timers", "expiry racing with message handling", "the binance backends (their KeyGen panics on pre-parameter timeout by design of the adapter: read only, not encoded)"],
    runs=[
        _bls("verifH_C11_silent", ["bls_c11.go.txt"], params={"hCtxEnd": 2}, name="TBLS.KeyGen with a peer that goes silent after its k-th message", count=["assert:C11-", "panic:", "deadlock:"], covers=["end", "returned-error", "returned-ok"],
             bounds={"n": 3, "t": 2, "silent peer": "any of 3", "k": "0..6 (all)", "context ends by": "cancellation or deadline (symbolic)"}),
        dict(name="Scheme.Sign failure paths return an error", dir="threshold", files=["thr_c12.go.txt"], entry="verifH_C12_sign", args=_THR_CONC + ["-preempt", "0"], count=["assert:C11-", "panic:", "deadlock:"], expect_covers=["end"],
             shards=8, shard_depth=4, bounds={"outcomes": "first barrier fails, second barrier fails, share data unusable, signer fails, either barrier or the signing protocol never completes until the context ends"}),
    ],
)

PROPS["C20"] = dict(
    level="model_checking",
    explanation="vector-clock happens-before monitor over every heap read/write and map operation of the real code on the schedules the engine explores (symbolic scheduler, preemption bounded): "
                "reported = feasible path with two conflicting accesses unordered by mutex/cond/channel/once/atomic/go edges; every report is confirmed by running the harness natively under the Go race detector",
    assumptions=COMMON_ENV + ["happens-before edges are over-approximated (one clock per synchronisation object), so the monitor can miss a race but does not invent one",
                              "only the harnessed scenarios: KeyGen || OnMsg with early/duplicate/out-of-phase messages (bls), HandleMessage || Send (msg.Box), HandleMessage || Sign (threshold)"],
    outside=["everything not on those schedules", "runtime internals and library code", "more than 2 preemptions", "full-stack runs"],
    runs=[
        _bls("verifH_C20_keygen_race", ["bls_c20.go.txt"], name="bls: KeyGen || OnMsg (two shares, an out-of-phase reveal)", extra=["-race", "-acqonly", "-preempt", "2"], count=["race:", "panic:"], covers=["end"],
             bounds={"goroutines": "KeyGen, dispatcher, context monitor, deadline", "preemptions": "<= 2", "switch points": "before every Lock/Unlock, channel operation"}, shards=16, shard_depth=4, replay_repeat=2, replay_args=["-instr", "mpc.go"]),
        dict(name="msg.Box: HandleMessage (two peers) || Send incl. garbage collection", dir="msg", files=["msg_c20.go.txt"], entry="verifH_C20_box", args=["-realhex", "-race", "-acqonly", "-preempt", "1"], shards=16, shard_depth=5,
             count=["race:", "panic:", "deadlock:"], expect_covers=["end"], replay_repeat=2, replay_args=["-instr", "msgbox.go"], bounds={"goroutines": "3 + main + clock daemon", "preemptions": "<= 1"}, tiers={"thorough": {"args": ["-realhex", "-race", "-acqonly", "-preempt", "2"], "bounds": {"preemptions": "<= 2"}}}),
    ],
)

PROPS["C05"] = dict(
    level="model_checking",
    explanation="S2: honest parties run the real TBLS.KeyGen; the Byzantine party's share per victim, commitment, revealed key (well-formed or raw), omissions, duplicates and phase order are symbolic; "
                "assertions: completed honest parties report identical public material and their shares sign under it; no reveal before all commitments are held; no panic; context expiry at quiescence",
    assumptions=_ALG_ENV + ["broadcast-class messages reach every honest party identically (C02)", "collision-free SHA-256 for the hash commitment", "canonical goroutine schedule, messages delivered in send order"],
    outside=["more than one Byzantine party", "n > 3 (4 thorough)", "the PS DKG beyond the shared structure (tps.go mirrors mpc.go; its KeyGen is exercised honestly in C08)"],
    runs=[
        _bls("verifH_C05_byz", ["bls_c05.go.txt"], params={"bN": 3, "bT": 2}, name="n=3 t=2, party 3 Byzantine", count=["assert:C05-", "panic:", "deadlock:"], covers=["all-aborted", "all-completed"], shards=8, shard_depth=4,
             bounds={"n": 3, "t": 2, "Byzantine messages": "share per victim arbitrary/withheld/duplicated, commitment matching or arbitrary 32 bytes or withheld, reveal well-formed/raw/withheld/duplicated, reveal before commitment or after"}),
        _bls("verifH_C05_byz", ["bls_c05.go.txt"], params={"bN": 3, "bT": 3}, name="n=3 t=3 (t = n)", count=["assert:C05-", "panic:", "deadlock:"], covers=["all-aborted", "all-completed"], shards=8, shard_depth=4,
             bounds={"n": 3, "t": 3}),
        _bls("verifH_C05_byz", ["bls_c05.go.txt"], params={"bN": 4, "bT": 2}, name="n=4 t=2", count=["assert:C05-", "panic:", "deadlock:"], covers=["all-aborted", "all-completed"], shards=16, shard_depth=5,
             bounds={"n": 4, "t": 2}, only=["thorough"]),
        _bls("verifH_C05_byz", ["bls_c05.go.txt"], params={"bN": 4, "bT": 3}, name="n=4 t=3", count=["assert:C05-", "panic:", "deadlock:"], covers=["all-aborted", "all-completed"], shards=16, shard_depth=5,
             bounds={"n": 4, "t": 3}, only=["thorough"]),
    ],
)
PROPS["C09"] = dict(
    level="model_checking",
    explanation="S1 on the real localSign/localAggregateSignatures/localVerify (BLS) and the real PS request/proof code: tamper classes applied to genuine objects built from symbolic randomness. "
                "Universal classes (signature moved, other key, other message; PS: see runs) are asserted for every value; generic classes (fewer shares, wrong index, foreign share) are decided as "
                "'a rejecting polynomial exists' (required cover) plus rejection at a fixed generic point; idempotence and no mutation of the verified object are asserted",
    assumptions=_ALG_ENV + ["non-degenerate key f(0) != 0", "that no efficient adversary finds an accepted forgery is a computational statement and is NOT claimed: the claim is that every component is bound"],
    outside=["computational soundness (discrete log, random oracle)", "n > 4", "tamper classes outside the listed ones"],
    runs=[
        _bls("verifH_C09_bls", ["bls_c09.go.txt"], params={"gN": 4, "gT": 3, "gConcrete": 0}, name="BLS n=4 t=3, symbolic polynomial", count=["assert:C09-", "panic:"],
             covers=["end", "fewer-than-t-shares-rejected", "wrong-signer-index-rejected", "foreign-share-rejected"], bounds={"n": 4, "t": 3, "digest": "symbolic byte", "classes": 6}),
        _bls("verifH_C09_bls", ["bls_c09.go.txt"], params={"gN": 4, "gT": 3, "gConcrete": 1}, name="BLS n=4 t=3, fixed generic polynomial", count=["assert:C09-", "panic:"], covers=["end"],
             bounds={"polynomial": "coefficients 1000003, 7919, 104729", "digest and hash values": "symbolic"}),
        _bls("verifH_C09_bls", ["bls_c09.go.txt"], params={"gN": 3, "gT": 2, "gConcrete": 0}, name="BLS n=3 t=2", count=["assert:C09-", "panic:"], covers=["end", "wrong-signer-index-rejected", "foreign-share-rejected"], bounds={"n": 3, "t": 2}),
    ],
)


def _ps(entry, files, params=None, name=None, count=None, covers=None, bounds=None, extra=None, tiers=None, only=None, **kw):
    d = dict(name=name or entry, dir="mpc/ps", files=files + ["ps_common.go.txt", "ps_model.go.txt"], entry=entry, args=_PS_ARGS + (extra or []), params=params or {},
             count=count, expect_covers=covers or [], bounds=bounds or {}, tiers=tiers or {}, replay_args=["-nativeredirect"])
    if only:
        d["only_tiers"] = only
    d.update(kw)
    return d


PROPS["C08"] = dict(
    level="model_checking",
    explanation="S2, honest: the real TPS.Init/KeyGen/OnMsg of n parties, ThresholdPK, Prover.Init/Blind, TPS.Sign on every party, Prover.UnBlind (its pairing check is part of the assertion), "
                "ProveKnowledgeOfSignature for every signer set of size >= t, Verifier.Init/Verify; all DKG and blinding randomness symbolic; polynomial identities decided exactly",
    assumptions=_ALG_ENV + ["ps.psuedoRandomG2 (calls gnark directly) replaced by a fixed G2 element with unknown non-zero exponent", "party ids 1..n (the prover uses the id itself as evaluation point)",
                            "message entries: the hash-to-scalar of a byte string is an uninterpreted non-zero field element, so entries are distinguished only by which are equal",
                            "canonical goroutine schedule, messages delivered in send order"],
    outside=["the real curve", "n > 3, L > 2 (quick) / n > 4, L > 3 (thorough)", "party identifiers other than 1..n"],
    runs=[
        _ps("verifH_C08_threshold", ["ps_c08.go.txt"], params={"pN": 3, "pT": 2, "pL": 1}, name="n=3 t=2 L=1", count=["assert:C08-", "panic:", "deadlock:"], covers=["end"], bounds={"n": 3, "t": 2, "L": 1, "signer sets": "all of size >= t"}),
        _ps("verifH_C08_threshold", ["ps_c08.go.txt"], params={"pN": 3, "pT": 2, "pL": 2}, name="n=3 t=2 L=2", count=["assert:C08-", "panic:", "deadlock:"], covers=["end"], bounds={"n": 3, "t": 2, "L": 2, "entries": "equal or different"}),
        _ps("verifH_C08_threshold", ["ps_c08.go.txt"], params={"pN": 3, "pT": 3, "pL": 1}, name="n=3 t=3 L=1", count=["assert:C08-", "panic:", "deadlock:"], covers=["end"], bounds={"n": 3, "t": 3, "L": 1}),
        _ps("verifH_C08_threshold", ["ps_c08.go.txt"], params={"pN": 2, "pT": 2, "pL": 2}, name="n=2 t=2 L=2", count=["assert:C08-", "panic:", "deadlock:"], covers=["end"], bounds={"n": 2, "t": 2, "L": 2}),
        _ps("verifH_C08_local", ["ps_c08.go.txt"], name="single signer flow (LocalKeyGen)", count=["assert:C08-", "panic:"], covers=["end"], bounds={"L": 1}),
        _ps("verifH_C08_threshold", ["ps_c08.go.txt"], params={"pN": 4, "pT": 3, "pL": 1}, name="n=4 t=3 L=1", count=["assert:C08-", "panic:", "deadlock:"], covers=["end"], bounds={"n": 4, "t": 3, "L": 1}, only=["thorough"]),
        _ps("verifH_C08_threshold", ["ps_c08.go.txt"], params={"pN": 3, "pT": 2, "pL": 3}, name="n=3 t=2 L=3", count=["assert:C08-", "panic:", "deadlock:"], covers=["end"], bounds={"n": 3, "t": 2, "L": 3}, only=["thorough"]),
    ],
)
PROPS["C09"]["runs"] += [
    _ps("verifH_C09_ps", ["ps_c09.go.txt"], name="PS: idempotence, no mutation, 12 tamper classes on request / proof / key / blind signature", count=["assert:C09-", "panic:"],
        covers=["end", "request-commitment-refused"], bounds={"L": 1, "component moved by": "an arbitrary non-zero amount", "classes": 12}),
]
PROPS["C10"]["runs"] += [
    _ps("verifH_C10_ps_sign", ["ps_c10.go.txt"], name="TPS.Sign (untrusted signing request)", extra=["-asn1havoc"], count=["panic:", "deadlock:"], covers=["refused", "returned"], shards=16, shard_depth=6, no_native_replay=True,
        bounds={"request": "malformed, or an arbitrary RawBlindSignature / RawBlindCorrectProof (vectors of length 0..2, elements well-formed or raw)"}),
    _ps("verifH_C10_ps_verify", ["ps_c10.go.txt"], name="ps.Verifier.Verify (untrusted proof)", extra=["-asn1havoc", "-asn1maxvec", "5"], count=["panic:", "deadlock:"], covers=["rejected", "returned"], no_native_replay=True,
        bounds={"proof": "malformed, or arbitrary vectors of length 0..5"}),
    _ps("verifH_C10_ps_onmsg", ["ps_c10.go.txt"], name="TPS.OnMsg then the KeyGen steps consuming the stored share / key", extra=["-asn1havoc"], count=["panic:", "deadlock:"], covers=["returned", "share-stored", "key-stored"], no_native_replay=True,
        bounds={"message": "share / commitment / reveal with arbitrary payload (vectors of length 0..2)"}),
]

_C19_RD = ("github.com/golang/protobuf/proto.Unmarshal=verifProtoUnmarshal,math/big.NewInt=verifNewInt,(*math/big.Int).Cmp=verifCmp,(*math/big.Int).Uint64=verifUint64,"
           "(*github.com/bnb-chain/tss-lib/v2/tss.MessageWrapper_PartyID).KeyInt=verifKeyInt,github.com/bnb-chain/tss-lib/v2/tss.NewPartyID=verifNewPartyID,"
           "github.com/bnb-chain/tss-lib/v2/tss.ParseWireMessage=verifParseWire,github.com/bnb-chain/tss-lib/v2/tss.RegisterCurve=verifRegisterCurve,crypto/elliptic.P256=verifP256,"
           "github.com/bnb-chain/tss-lib/v2/tss.SetCurve=verifSetCurve,github.com/bnb-chain/tss-lib/v2/tss.Edwards=verifEdwards")


def _c19(scheme, entry, covers, bounds):
    return dict(name="%s adapter: %s" % (scheme, entry), dir="mpc/binance/" + scheme, files=["gen/%s_c19.go.txt" % scheme, "gen/%s_oracle.go.txt" % scheme], entry=entry,
                args=["-preempt", "0", "-redirect", _C19_RD + ",(*github.com/bnb-chain/tss-lib/v2/tss.Parameters).Parties=verifParties"], replay_args=["-nativeredirect"],
                count=["assert:C19-", "panic:"], expect_covers=covers, bounds=bounds)


PROPS["C19"] = dict(
    level="model_checking",
    explanation="S1 on the real ClassifyMsg and OnMsg of both tss-lib adapters; the routing oracle (type URL -> IsBroadcast, phase) is regenerated on every run from the New...Message constructors of the tss-lib "
                "sources the adapters are built against; all pairs of message types; sender binding for every (claimed key, transport sender) pair",
    pre=["python3", "@VERIF@/gen_c19.py", "ecdsa", "eddsa"],
    assumptions=COMMON_ENV + ["proto.Unmarshal stubbed to yield an Any with a type URL from the library's set; tss.ParseWireMessage stubbed to return a message with an arbitrary embedded sender key (or fail); "
                              "math/big modelled by a 64-bit side table (NewInt, Cmp, Uint64) in the classification / sender runs; executed from its pure-Go sources in the Sign-digest and re-Init runs", "package initialisers executed (the two tables), curve registration stubbed"],
    outside=["protobuf and tss-lib internals", "Sign's digest binding (bytes.Equal(sigOut.M, msgToSign.Bytes()) needs the local party and big.Int arithmetic: read, not encoded)", "hashToInt"],
    runs=[
        _c19("ecdsa", "verifH_C19_classify", ["end"], {"message types": "all 14 x 14 pairs"}),
        _c19("ecdsa", "verifH_C19_sender", ["delivered", "dropped"], {"from": "all 16-bit", "claimed key": "all 32-bit values, or missing", "parse": "ok or fails"}),
        _c19("eddsa", "verifH_C19_classify", ["end"], {"message types": "all 6 x 6 pairs"}),
        _c19("eddsa", "verifH_C19_sender", ["delivered", "dropped"], {"from": "all 16-bit", "claimed key": "all 32-bit values, or missing"}),
    ],
)

PROPS["C20"]["runs"].append(
    dict(name="threshold: KeyGen || HandleMessage dispatching an early DKG protocol message", dir="threshold", files=["thr_c20.go.txt"], entry="verifH_C20_keygen_dispatch",
         args=["-realhex", "-redirect", "context.WithCancel=verifWithCancel", "-race", "-acqonly", "-preempt", "1"], shards=16, shard_depth=5, replay_repeat=2, replay_args=["-instr", "threshold.go"],
         count=["race:", "panic:", "deadlock:", "assert:C01-", "assert:C20-"], expect_covers=["end"],
         bounds={"goroutines": "KeyGen (+ its synchroniser/callback goroutines), one dispatcher", "preemptions": "<= 1", "backend": "stub shaped like TBLS/TPS: Init installs state without a lock, OnMsg uses it"}))

_NET_RD_BIND = ("(*crypto/tls.Conn).ConnectionState=verifConnectionState,(*crypto/tls.ConnectionState).ExportKeyingMaterial=verifExportKeyingMaterial,"
                "encoding/pem.Decode=verifPemDecode,crypto/x509.ParseCertificate=verifParseCert,crypto/ecdsa.VerifyASN1=verifVerifyASN1,(*crypto/tls.Conn).Write=verifConnWrite,"
                "(*crypto/tls.Conn).Close=verifConnClose,crypto/tls.Dial=verifDial,time.Unix=verifTimeUnix")
PROPS["C16"]["runs"].append(
    dict(name="source of the channel binding (real extractTLSBinding over a stubbed TLS state)", dir="net", files=["net_c16.go.txt", "net_model.go.txt"], entry="verifH_C16_binding",
         args=["-realhex", "-redirect", _NET_RD_BIND, "-preempt", "0"], replay_args=_NET_REPLAY, count=["assert:C16-", "panic:"], expect_covers=["binding"],
         bounds={"exporter value": "32 symbolic bytes", "tls-unique": "absent or 2 symbolic bytes"}))

PROPS["C10"]["runs"].append(
    dict(name="msg.Box.HandleMessage (silent-mode buffer)", dir="msg", files=["msg_c15.go.txt"], entry="verifH_C10_box", args=["-realhex", "-preempt", "0", "-unwind", "128"], count=["panic:", "deadlock:"],
         expect_covers=["returned"], bounds={"topic length": "{0,3,8,32}", "payload": "0..2 bytes", "type/source": "all", "state": "fresh / topic started / sender at the per-topic limit / sender over its quota of buffered topics; then another peer and the local party use the box"}))
PROPS["C04"]["runs"] += [
    _bls("verifH_C04_classify", ["bls_c04.go.txt"], name="TBLS.ClassifyMsg: rounds and classes", count=["assert:C04-", "panic:"], covers=["classified", "rejected"], bounds={"payloads": "two, 2 symbolic bytes each"}),
    _ps("verifH_C04_classify", ["ps_c04.go.txt"], name="TPS.ClassifyMsg: rounds and classes", count=["assert:C04-", "panic:"], covers=["classified", "rejected"], bounds={"payloads": "two, 2 symbolic bytes each"}),
]

PROPS["C01"]["runs"].append(
    _bls("verifH_C01_commute", ["bls_c01b.go.txt"], name="OnMsg order independence lemma", count=["assert:C01-", "panic:"], covers=["end"],
         bounds={"state": "initialised, n=3", "messages": "two arbitrary well-formed messages (share / commitment / reveal) from different senders or of different type"}))

PROPS["C01"]["runs"] += [
    _bls("verifH_C01_keygen", ["bls_c01.go.txt"], params={"kN": 2, "kT": 2, "kOrder": 2}, name="DKG + signing n=2, every delivery order at all", count=["assert:C01-", "panic:", "deadlock:"], covers=["end"],
         bounds={"n": 2, "delivery": "any queued message next (reliable broadcast does not keep the rounds of one sender in order)"}),
    _bls("verifH_C01_keygen", ["bls_c01.go.txt"], params={"kN": 3, "kT": 2, "kOrder": 3}, name="DKG + signing n=3, one message held back", count=["assert:C01-", "panic:", "deadlock:"], covers=["end"], shards=16, shard_depth=4,
         bounds={"n": 3, "delivery": "send order, except that one symbolically chosen message (any of 18) is held back until nothing else is queued"}),
]
PROPS["C08"]["runs"] += [
    _ps("verifH_C08_threshold", ["ps_c08.go.txt"], params={"pN": 2, "pT": 2, "pL": 1, "pOrder": 2}, name="n=2, every DKG delivery order at all", count=["assert:C08-", "panic:", "deadlock:"], covers=["end"],
        bounds={"n": 2, "delivery": "any queued message next"}),
    _ps("verifH_C08_threshold", ["ps_c08.go.txt"], params={"pN": 3, "pT": 2, "pL": 1, "pOrder": 3}, name="n=3, one DKG message held back", count=["assert:C08-", "panic:", "deadlock:"], covers=["end"], shards=16, shard_depth=4,
        bounds={"n": 3, "delivery": "send order, except that one symbolically chosen message (any of 18) is held back until nothing else is queued"}),
]

PROPS["C09"]["runs"].append(
    _ps("verifH_C09_oracle", ["ps_c09.go.txt"], name="PS: the Fiat-Shamir challenges cover every statement value and commitment", count=["assert:C09-", "panic:"],
        covers=["signature-proof-oracle", "request-proof-oracle"], bounds={"oracles": "randomOracleForPoKofSignature (8 inputs), randomOracleForBlindingProof (10 inputs; the fixed generators gs are not covered by the code and not by the property)", "moved by": "an arbitrary non-zero amount, one input at a time"}))

PROPS["C11"]["runs"].append(
    dict(name="KeyGen / Sign with a dispatcher stuck inside the session's handler when the deadline passes", dir="threshold", files=["thr_c12.go.txt"], entry="verifH_C11_stuck_dispatch",
         args=_THR_CONC + ["-preempt", "0", "-det"], count=["assert:C11-", "panic:", "deadlock:"], expect_covers=["returned"],
         bounds={"call": "KeyGen or Sign (symbolic)", "scenario": "peer's synchroniser message dispatched while the session waits at its first barrier; the handler never returns; context expires at quiescence"}))

# ---- members only: traffic of a configured member that is not a participant of the session (and of a node outside the membership)
# must not reach the session's reliable-broadcast instance (C12 clause; C03 "session participant"; in C02 the vouchers of
# rbc.Receiver are only counted soundly among participants, so the filter in front of it is part of that claim)
def _members(entry, what, extra):
    return dict(name="members only: non-participant traffic during " + what, dir="threshold", files=["thr_c06.go.txt"], entry=entry,
                args=["-maporder", "-realhex"] + extra, count=["assert:C12-", "assert:C03-", "assert:C06-", "panic:", "deadlock:"], expect_covers=["end"], replay_repeat=40, shards=16, shard_depth=6,
                bounds={"configured nodes": 3, "participants": "u0 (self), u1", "sources": "u2 (member, not participant; may be a replica of u1's party), x (any id outside the session), u1 (control)",
                        "node/party ids": "all 16-bit values", "message": "5 symbolic bytes (payload and acknowledgement encodings)", "entry": "public Scheme.HandleMessage"})


_MEMBERS_RUNS = [
    _members("verifH_C12_members_sign", "a signing session (real prepareSigning)", []),
    _members("verifH_C12_members_keygen", "a key generation (real KeyGen/runDKG)", ["-redirect", "context.WithCancel=verifWithCancel", "-preempt", "0", "-det"]),
]
for _p in ("C12", "C03", "C02"):
    PROPS[_p]["runs"] += [dict(r) for r in _MEMBERS_RUNS]
PROPS["C05"]["runs"].append(dict(_MEMBERS_RUNS[1]))  # only participants may vouch in a DKG's reliable broadcast (a member outside the session could otherwise vouch for an equivocation)

# C01 composes over C06: the built-in backends derive each party's evaluation point from its position in the list handed to Init,
# so key agreement needs every node to initialise its backend with the same (sorted) list whatever order the synchroniser reports
PROPS["C01"]["runs"] += [
    dict(dict(r), name="backend initialised with the sorted party list: " + r["entry"], count=["assert:C06-init", "assert:C06-party", "panic:"])
    for r in PROPS["C06"]["runs"] if r["entry"] in ("verifH_C06_dkg", "verifH_C06_sign", "verifH_C06_dup")
]

# C13 (end to end for the built-in BLS backend): a complete DKG, the public parameters through Verifier.Init, the stored share data
# through SetShareData, signing and verification for every subset, with ARBITRARY 16-bit party identifiers
_C13_BLS = _bls("verifH_C01_keygen", ["bls_c01.go.txt"], params={"kN": 3, "kT": 2, "kOrder": 0, "kIds": 1}, name="BLS session with arbitrary 16-bit party identifiers (DKG, public parameters, stored shares, sign, aggregate, verify)",
                count=["assert:C01-", "assert:C13-", "panic:", "deadlock:"], covers=["end"], bounds={"n": 3, "t": 2, "party identifiers": "all ascending triples of 16-bit values", "delivery": "send order"})
PROPS["C13"]["runs"].append(_C13_BLS)
PROPS["C01"]["runs"].append(dict(_C13_BLS))

# PS twin of the Byzantine-participant DKG harness (C05), also the "DKG handlers then the KeyGen steps that consume what they stored" scenario of C10
def _ps_byz(count):
    return _ps("verifH_C05_ps_byz", ["ps_c05.go.txt"], params={"qN": 3, "qT": 2, "qL": 1}, name="TPS.KeyGen n=3 t=2, party 3 Byzantine", count=count, covers=["all-aborted", "all-completed"],
               shards=8, shard_depth=4, extra=["-consthex"],
               bounds={"n": 3, "t": 2, "message length": 1, "final cross-check": "not modelled in this run (-consthex: the map of aggregated keys has one entry, the DKG never rejects for inconsistent keys; the cross-check itself is the subject of C18's PS detection runs). "
                       "With it modelled the run needs algebra queries that z3 leaves undecided (7 of 150 000), so it is not registered that way", "Byzantine messages": "share per victim: arbitrary well-formed / wrong number of components / undecodable / withheld / duplicated; commitment matching or arbitrary 32 bytes or withheld; "
                       "revealed key arbitrary well-formed / wrong number of components / undecodable / withheld / duplicated; reveal before or after commitment", "context": "ends when nothing else can happen"})


PROPS["C05"]["runs"].append(_ps_byz(["assert:C05-", "panic:", "deadlock:"]))
PROPS["C10"]["runs"].append(_ps_byz(["panic:", "deadlock:"]))

# C18, PS twin of the detection check: every component (X, Y_k) of every party key is cross-checked over every t-subset
PROPS["C18"]["runs"] += [
    _ps("verifH_C18_ps_detect", ["ps_c18.go.txt"], params={"dN": n, "dT": t, "dL": l}, name="PS detection n=%d t=%d L=%d" % (n, t, l), count=["assert:C18-", "panic:"], covers=["consistent", "perturbed"],
        bounds={"n": n, "t": t, "message length": l, "perturbed": "any one party (symbolic), any one key component X / Y_k (symbolic), by any non-zero amount"},
        only=(["quick", "thorough"] if n <= 4 and l == 1 else ["thorough"]))
    for (n, t, l) in [(3, 2, 1), (4, 2, 1), (4, 3, 1), (3, 2, 2), (5, 2, 1), (5, 3, 1), (5, 4, 1), (4, 3, 2)]
]

# C19 last clause: the adapters' real Sign with math/big executed from its pure-Go sources (build tag math_big_pure_go); only the tss-lib signing party is a stub
def _c19_sign(scheme, rd):
    return dict(name="%s adapter: Sign returns a signature only for the requested digest" % scheme, dir="mpc/binance/" + scheme, files=["gen/%s_sign.go.txt" % scheme], entry="verifH_C19_digest",
                args=["-tags", "math_big_pure_go", "-preempt", "0", "-det", "-noinit", "-redirect", rd], replay_args=["-nativeredirect"], shards=16, shard_depth=6,
                count=["assert:C19-", "panic:", "deadlock:"], expect_covers=["signature-returned", "refused", "end"],
                tiers={"thorough": {"params": {"hAllLens": 1}, "bounds": {"digest length": "{0,1,20,31,32,33,48,64} bytes, all byte values"}}},
                bounds={"digest length": "{0,1,31,32,33,48} bytes, all byte values", "library outcome": "signs the integer it was given, or reports another signed message (same length or one byte longer, all byte values)",
                        "math/big": "SetBytes, Rsh, Bytes, BitLen, Lsh executed from the pure-Go sources on symbolic words"})


PROPS["C19"]["runs"] += [
    _c19_sign("ecdsa", "github.com/bnb-chain/tss-lib/v2/ecdsa/signing.NewLocalParty=verifNewSignParty,crypto/elliptic.P256=verifP256S,encoding/asn1.Marshal=verifMarshalS"),
    _c19_sign("eddsa", "github.com/bnb-chain/tss-lib/v2/eddsa/signing.NewLocalParty=verifNewSignParty,(github.com/decred/dcrd/dcrec/edwards/v2.Signature).Serialize=verifSerializeS"),
]

# PS twins: C20 (KeyGen || OnMsg) and C11 (KeyGen returns once its context ends, whatever the peer withheld)
PROPS["C20"]["runs"].append(
    _ps("verifH_C20_ps_keygen_race", ["ps_c20.go.txt"], name="ps: KeyGen || OnMsg (shares incl. a duplicate, out-of-phase commitment and reveal)", extra=["-race", "-acqonly", "-preempt", "2"], count=["race:", "panic:"], covers=["end"],
        bounds={"goroutines": "KeyGen, dispatcher, context monitor, deadline", "preemptions": "<= 2", "switch points": "before every Lock/Unlock, channel operation"}, shards=16, shard_depth=4, replay_repeat=2,
        replay_args=["-nativeredirect", "-instr", "tps.go"]))
_r = _ps_byz(["assert:C11-", "panic:", "deadlock:"])
_r["params"] = dict(_r["params"], hCtxEnd=2)
_r["name"] += " (context ends by cancellation or deadline: KeyGen must return)"
PROPS["C11"]["runs"].append(_r)

_C13_PS = _ps("verifH_C08_threshold", ["ps_c08.go.txt"], params={"pN": 3, "pT": 2, "pL": 1, "pOrder": 0, "pIds": 1}, name="PS session with arbitrary 16-bit party identifiers (DKG, public parameters, prover, sign, unblind, prove, verify)",
              count=["assert:C08-", "assert:C13-", "panic:", "deadlock:"], covers=["end"], bounds={"n": 3, "t": 2, "party identifiers": "all ascending triples of 16-bit values", "delivery": "send order"})
PROPS["C13"]["runs"].append(_C13_PS)
PROPS["C08"]["runs"].append(dict(_C13_PS))

PROPS["C11"]["runs"].append(
    dict(name="Scheme.KeyGen failure paths return an error", dir="threshold", files=["thr_c12.go.txt"], entry="verifH_C12_keygen", args=_THR_CONC + ["-preempt", "0", "-det"], count=["assert:C11-", "panic:", "deadlock:"],
         expect_covers=["end"], bounds={"outcomes": "first barrier fails, second barrier fails, backend fails, duplicate party, either barrier or the backend protocol never completes until the context ends", "schedule": "canonical"}))

# C06 with all three nodes participating (a point-to-point message must reach one node also when the broadcast list has two)
for _r in list(PROPS["C06"]["runs"]):
    if _r["entry"] in ("verifH_C06_dkg", "verifH_C06_sign", "verifH_C06_keygen"):
        _n = dict(_r, params=dict(_r.get("params") or {}, hPart=3), count=list(_r["count"]) + ["assert:C04-"], name=_r["entry"] + " (three participants)", bounds=dict(_r.get("bounds") or {}, participants="all three configured nodes"))
        if _r["entry"] == "verifH_C06_keygen":
            _n["expect_covers"] = ["end"]
        PROPS["C06"]["runs"].append(_n)

# several dispatchers on ONE session's real rbc.Receiver (the serialisation the sequential reasoning of C02/C03 rests on)
_TWO_DISP = dict(name="threshold: two/three dispatcher goroutines on one session (real rbc.Receiver behind the Scheme's wrappers)", dir="threshold", files=["thr_c20.go.txt"], entry="verifH_C20_two_dispatchers",
                 args=["-realhex", "-redirect", "context.WithCancel=verifWithCancel", "-race", "-acqonly", "-preempt", "2"], replay_repeat=2, replay_args=["-instr", "threshold.go"],
                 count=["race:", "panic:", "deadlock:", "assert:C20-"], expect_covers=["end"],
                 bounds={"goroutines": "2 or 3 dispatchers (symbolic), main", "preemptions": "<= 2", "messages": "peer 2: point-to-point payload or acknowledgement; peer 3: broadcast, optionally a conflicting broadcast of the same round"})
PROPS["C20"]["runs"].append(_TWO_DISP)
PROPS["C02"]["runs"].append(dict(_TWO_DISP))

# a peer that connects and goes silent must not hold up the accept loop (C17 "slow peer does not stop traffic between the remaining peers"; C10 "cannot wedge a node ... connection handshake")
_ACCEPT = dict(name="ServiceConnections: a silent peer does not hold up the accept loop", dir="net", files=["net_c17.go.txt", "net_model.go.txt"], entry="verifH_C17_accept_stalled", args=_NET_ARGS17, replay_args=_NET_REPLAY,
               count=["assert:C17-", "panic:", "deadlock:"], expect_covers=["end"],
               bounds={"connections": "a silent one (sends 0..4 bytes of its handshake, then nothing, for ever), then another peer", "listener": "stub net.Listener", "reads": "no deadline (as in the code under test)"})
PROPS["C17"]["runs"].append(_ACCEPT)
PROPS["C10"]["runs"].append(dict(_ACCEPT))

# C03 with ALL other participants Byzantine (the two-receiver BMC always has two honest parties, so N-1 forged vouchers about a sender that never
# transmitted - e.g. a node outside the session - cannot be collected there): the threshold-layer run of C10, whose forward closure fails on an empty placeholder
for _r in PROPS["C10"]["runs"]:
    if _r["entry"] == "verifH_C10_handle_rbc":
        PROPS["C03"]["runs"].append(dict(_r, name="one honest receiver, every other participant Byzantine (real rbc.Receiver behind Scheme.HandleMessage): " + _r.get("name", ""), count=["panic:", "deadlock:", "assert:C10-"]))
        break

# C05: "shares not on one polynomial ... never complete": the PS DKG's cross-check over every component (the C18 PS detection runs)
PROPS["C05"]["runs"] += [dict(r) for r in PROPS["C18"]["runs"] if r["entry"] == "verifH_C18_ps_detect" and "quick" in r.get("only_tiers", ["quick"])]

# the session's reliable broadcast is sized by the number of participants (C01 / C04 compose over it: with a smaller N a broadcast whose
# acknowledgements overtake it is never handed over)
for _p in ("C01", "C04"):
    PROPS[_p]["runs"] += [dict(r, name="reliable broadcast sized by the session, acknowledgements transmitted to every other participant: " + r.get("name", r["entry"]), count=["assert:C06-rbc", "assert:C04-", "panic:"]) for r in PROPS["C06"]["runs"]
                          if r["entry"] in ("verifH_C06_keygen", "verifH_C06_sign") and (r.get("params") or {}).get("hPart") == 3]

# C14 also over garbage collection: a message buffered in the current epoch is handed over at the first Send of its topic whatever GC that Send (or an
# earlier one on another topic) runs after an idle period (sequential operation sequences with symbolic epoch jumps; the C15 expiry run)
PROPS["C14"]["runs"] += [dict(r, name="sequential: " + r["name"], count=["assert:C14-", "panic:", "deadlock:"]) for r in PROPS["C15"]["runs"] if r["entry"] == "verifH_C15_gc"]
PROPS["C15"]["runs"].append(
    dict(name="an over-limit sender cannot keep a dead topic alive", dir="msg", files=["msg_c15.go.txt"], entry="verifH_C15_keepalive", args=["-realhex", "-preempt", "0", "-unwind", "128"],
         count=["assert:C15-", "panic:", "deadlock:"], expect_covers=["end"], bounds={"flood": "102 messages (limit 101) then one dropped message every 1..3 epochs (symbolic) for > 3 expiry periods", "expiry": "4 epochs"}))

# C09 "each share combined under its own signer index": genuine shares listed in any order aggregate to a verifying signature (the C01 session run, n=3)
PROPS["C09"]["runs"] += [dict(r, name="BLS: genuine shares in any listing order: " + r.get("name", ""), count=["assert:C01-subset-verifies", "assert:C01-aggregate", "panic:"])
                         for r in PROPS["C01"]["runs"] if r["entry"] == "verifH_C01_keygen" and (r.get("params") or {}) == {"kN": 3, "kT": 2, "kOrder": 0}][:1]

def _c19_reinit(scheme, rd):
    return dict(name="%s adapter: sender binding across consecutive sessions of one instance (re-Init with another member)" % scheme, dir="mpc/binance/" + scheme, files=["gen/%s_sign.go.txt" % scheme], entry="verifH_C19_reinit",
                args=["-tags", "math_big_pure_go", "-preempt", "0", "-det", "-noinit", "-redirect", rd], replay_args=["-nativeredirect"],
                count=["assert:C19-", "panic:", "deadlock:"], expect_covers=["end"],
                bounds={"sessions": "{1,2,3} then {1,2,x}, same threshold", "x": "every 16-bit party number other than 1,2,3", "library": "tss-lib party ids, sorting, peer context and parameters executed from their sources"})


PROPS["C19"]["runs"] += [
    _c19_reinit("ecdsa", "crypto/elliptic.P256=verifP256S"),
    _c19_reinit("eddsa", "github.com/bnb-chain/tss-lib/v2/tss.Edwards=verifEdwardsS"),
]

# C11: the context ends at an arbitrary moment relative to the message handling (not only when nothing else can run)
PROPS["C11"]["runs"] += [
    _bls("verifH_C11_expire_anywhere", ["bls_c11.go.txt"], params={"hCtxEnd": 2}, extra=["-preempt", "1", "-acqonly", "-det=false"], name="TBLS.KeyGen: the context ends at any scheduling point; peers stop after k deliveries",
         count=["assert:C11-", "panic:", "deadlock:"], covers=["end", "returned-error", "returned-ok"],
         bounds={"n": 3, "t": 2, "deliveries": "0..6 (shares, commitments, keys of two scripted peers, in order)", "context": "ended by a goroutine that is runnable from the start: before, between, after any deliveries and between KeyGen's waits; by cancellation or deadline", "preemptions": "<= 1 plus all choices at blocking points"}),
    _ps("verifH_C11_ps_expire_anywhere", ["ps_c11.go.txt"], params={"hCtxEnd": 2}, extra=["-preempt", "1", "-acqonly", "-det=false", "-consthex"], name="TPS.KeyGen: the context ends at any scheduling point; peers stop after k deliveries",
        count=["assert:C11-", "panic:", "deadlock:"], covers=["end", "returned-error"],
        bounds={"n": 3, "t": 2, "deliveries": "0..6", "context": "as in the BLS run", "preemptions": "<= 1 plus all choices at blocking points"}),
]

PROPS["C10"]["runs"].append(
    _ps("verifH_C10_ps_sign_resized", ["ps_c10b.go.txt", "ps_c10.go.txt"], name="TPS.Sign: a genuine request re-encoded with one vector of the wrong length (natively replayable twin of the havoc run)", count=["panic:", "deadlock:", "assert:C10-"], covers=["refused", "returned"],
        bounds={"vector": "one of A, B, proof X, Y, D, F (symbolic)", "new length": "0, n-1, n+1 (symbolic)", "rest": "as the prover made it"}))

PROPS["C17"]["runs"].append(
    dict(name="three frames through handleConn, all held by the receiver before it looks at them", dir="net", files=["net_c16.go.txt", "net_model.go.txt"], entry="verifH_C17_frames_held", args=_NET_ARGS, replay_args=_NET_REPLAY,
         count=["assert:C17-", "panic:", "deadlock:"], expect_covers=["received"], bounds={"frames": "MPC (32-byte symbolic topic, 2 symbolic bytes), Discovery (32-byte symbolic topic, 1 byte), None (1 byte)", "entry": "handleConn only (no internal function called)"}))
PROPS["C15"]["runs"].append(
    dict(name="a started topic releases one slot of its senders' quota, not all", dir="msg", files=["msg_c15.go.txt"], entry="verifH_C15_release_scope", args=["-realhex", "-preempt", "0"],
         count=["assert:C15-", "panic:", "deadlock:"], expect_covers=["end"], bounds={"scenario": "sender at its limit (two buffered topics), one of them (symbolic) starts, two further topics arrive", "MaxInFlightTopicsBySender": 1}))

# C07 composes over the per-topic member tags: two configured members with the same tag cannot both be heard (C13's PRF-input run)
PROPS["C07"]["runs"] += [dict(r, name="distinct members have distinct tags (PRF input): " + r.get("name", r["entry"])) for r in PROPS["C13"]["runs"] if r["entry"] == "verifH_C13_prf"]

# C11 "before synchronisation ...": the real disc.Member.Synchronize returns once its context ends, whatever the peers did (the C07 L3 run; a loop that never
# ends is reported when the native replay hangs)
PROPS["C11"]["runs"] += [dict(r, name="Synchronize returns when its context ends: " + r.get("name", r["entry"]), count=["panic:", "deadlock:"]) for r in PROPS["C07"]["runs"] if r["entry"] == "verifH_C07_sync"][:1]

_BUSY = dict(name="a session stuck inside the processing of one of its messages does not hold up a session on another topic", dir="threshold", files=["thr_c12.go.txt"], entry="verifH_C12_busy_session",
             args=_THR_CONC + ["-preempt", "0", "-det"], count=["assert:C12-", "panic:", "deadlock:"], expect_covers=["end"],
             bounds={"sessions": "Sign on topic A (backend busy, one dispatcher stuck inside its reliable-broadcast layer), then Sign on topic B", "schedule": "canonical"})
PROPS["C12"]["runs"].append(_BUSY)
PROPS["C11"]["runs"].append(dict(_BUSY))

PROPS["C03"]["runs"].append(dict(_TWO_DISP))  # "at most once per sender and round" rests on the receiver being entered by one dispatcher at a time
# C04: acknowledgements are booked under the sender they are about (the wire round trip of C13 for every 16-bit sender)
PROPS["C04"]["runs"] += [dict(r, name="acknowledgement wire round trip: " + r.get("name", r["entry"])) for r in PROPS["C13"]["runs"] if r["entry"] == "verifH_C13_ack"]

# C13 "identifiers anywhere in 0..65535 ... complete exactly as sessions with small identifiers do": the orchestrator accepts every set of distinct 16-bit
# party identifiers (0 and 65535 included) and refuses only real duplicates (C06's run over all 16-bit ids)
PROPS["C13"]["runs"] += [dict(r, name="every set of distinct 16-bit party identifiers is accepted: " + r["entry"]) for r in PROPS["C06"]["runs"] if r["entry"] == "verifH_C06_dup"]

# sessions with concrete party identifiers that are not 1..n (catches an identifier flowing into the algebra, where the symbolic-identifier runs lose the link between
# the bit-vector identifier and the Real evaluation point)
_C13_BLS2 = _bls("verifH_C01_keygen", ["bls_c01.go.txt"], params={"kN": 3, "kT": 2, "kOrder": 0, "kIds": 2}, name="BLS session with party identifiers that are not 1..n ({2,5,7}, {1,2,4}, {5,300,40000}, {0,1,2})",
                 count=["assert:C01-", "assert:C13-", "panic:", "deadlock:"], covers=["end"], bounds={"n": 3, "t": 2, "party identifiers": "4 concrete shapes (symbolic choice)", "delivery": "send order"})
_C13_PS2 = _ps("verifH_C08_threshold", ["ps_c08.go.txt"], params={"pN": 3, "pT": 2, "pL": 1, "pOrder": 0, "pIds": 2}, name="PS session with party identifiers that are not 1..n ({2,5,7}, {1,2,4}, {5,300,40000}, {0,1,2})",
               count=["assert:C08-", "assert:C13-", "panic:", "deadlock:"], covers=["end"], bounds={"n": 3, "t": 2, "party identifiers": "4 concrete shapes (symbolic choice)", "delivery": "send order"})
PROPS["C13"]["runs"] += [_C13_BLS2, _C13_PS2]
PROPS["C01"]["runs"].append(dict(_C13_BLS2))
PROPS["C08"]["runs"].append(dict(_C13_PS2))

# C05 "different values shown to different parties": the agreement of the reliable broadcast it rests on (C02's smaller BMC run)
PROPS["C05"]["runs"] += [dict(r, name="reliable-broadcast agreement under an equivocating participant: " + r.get("name", "")) for r in PROPS["C02"]["runs"] if r["entry"] == "verifH_C02_bmc"][:1]

PROPS["C20"]["runs"].append(
    dict(name="disc: Synchronize || HandleMessage (a peer's early query / announcement / response)", dir="disc", files=["disc_c20.go.txt", "disc_model.go.txt"], entry="verifH_C20_disc",
         args=["-realhex", "-redirect", _DISC_RD, "-race", "-acqonly", "-preempt", "2"], count=["race:", "panic:", "deadlock:"], expect_covers=["end"], replay_repeat=2, replay_args=["-nativeredirect", "-instr", "discovery.go"],
         bounds={"goroutines": "Synchronize (caller), one dispatcher with two messages of peer 2 (types symbolic), deadline", "preemptions": "<= 2", "sync.Map": "model with internal synchronisation (one mutex), also in the native replay (so that the schedule can be enforced at its operations)"}))

PROPS["C09"]["runs"].append(
    _ps("verifH_C09_cheating_requester", ["ps_c09b.go.txt"], name="PS: a cheating requester (one ciphertext encrypts another value; proof computed by the real prover over a witness of its choice) is refused", count=["assert:C09-", "panic:"], covers=["end"],
        bounds={"message length": 1, "deviating slot": "any, the slot of m' included (symbolic)", "deviation": "any non-zero amount", "witness of the proof": "what the ciphertexts encrypt / what the commitment holds (symbolic)", "challenge": "any non-zero value (uninterpreted oracle)"}))
PROPS["C09"]["runs"].append(
    _ps("verifH_C09_cheating_prover", ["ps_c09b.go.txt"], name="PS: a proof of knowledge built by the real prover for another message entry or another witness is rejected", count=["assert:C09-", "panic:"], covers=["end"],
        bounds={"message length": 1, "deviation": "one message entry (the slot of m' included) or the witness h', by any non-zero amount (symbolic choice)"}))

PROPS["C12"]["runs"].append(
    dict(name="two Sign calls on one topic that overlap while the first is still setting up (its synchroniser factory call has not returned)", dir="threshold", files=["thr_c12.go.txt"], entry="verifH_C12_setup_window",
         args=_THR_CONC + ["-preempt", "0", "-det"], count=["assert:C12-", "panic:", "deadlock:"], expect_covers=["end"],
         bounds={"calls": "Sign (blocked inside SyncFactory), Sign on the same topic, then the first continues", "schedule": "canonical"}))

PROPS["C17"]["runs"].append(
    dict(name="a peer that is temporarily unreachable gets every accepted message once its listener is up", dir="net", files=["net_c17.go.txt", "net_model.go.txt"], entry="verifH_C17_late_listener", args=_NET_ARGS17, replay_args=_NET_REPLAY,
         count=["assert:C17-", "panic:", "deadlock:"], expect_covers=["end"], bounds={"refused connection attempts": "0..2 (symbolic), then the peer is there", "messages": 3}))
PROPS["C10"]["runs"].append(
    _ps("verifH_C10_ps_verify_resized", ["ps_c10b.go.txt", "ps_c10.go.txt"], name="ps.Verifier.Verify: a genuine proof re-encoded with a vector of the wrong length (natively replayable twin of the havoc run)", count=["panic:", "deadlock:", "assert:C10-"], covers=["rejected", "returned"],
        bounds={"vector": "the outer data vector (0, 4, 6 elements) or the inner response vector (0, n-1, n+1) (symbolic)", "rest": "as the prover made it"}))

# C01 "where signing itself is orchestrated": the orchestrated signing session (real Scheme.Sign with scripted collaborators): size of the gathered set, result passed through
PROPS["C01"]["runs"] += [dict(r, name="orchestrated signing session: " + r.get("name", r["entry"]), count=["assert:C01-", "panic:", "deadlock:"]) for r in PROPS["C12"]["runs"] if r["entry"] == "verifH_C12_sign"][:1]
