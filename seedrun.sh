#!/bin/bash
# seedrun.sh <dir containing patch.diff (or SEED/patch.diff)> <name> <property ids...> [-- tier]
# applies a stored seeded change to a scratch worktree of /repo HEAD and runs the named checks against it (no demo / test confirmation:
# that is seedcheck.sh). Removes the worktree afterwards.
src=$1; name=$2; shift 2
patch=$src/patch.diff; [ -f $patch ] || patch=$src/SEED/patch.diff
wt=/tmp/sr_$name
git -C /repo worktree remove --force $wt 2>/dev/null
git -C /repo worktree add -q $wt HEAD || exit 2
git -C $wt apply $patch || { echo "PATCH DOES NOT APPLY"; git -C /repo worktree remove --force $wt; exit 3; }
for p in "$@"; do
  ( cd /verif && VERIF_REPO=$wt ./check $p ${VERIF_TIER_ARG:-quick} 2>&1 | cut -c1-220 | grep -v "^KNOWN-FINDING" | head -8 )
done
git -C /repo worktree remove --force $wt
