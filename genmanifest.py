#!/usr/bin/env python3
"""Regenerates MANIFEST.json from checkcfg.py + manifest_meta.py (so the two never drift)."""
import json, os, sys
HERE = os.path.dirname(os.path.abspath(__file__))
sys.path.insert(0, HERE)
import checkcfg, manifest_meta as mm

checks = []
for pid in sorted(checkcfg.PROPS):
    meta = mm.META[pid]
    c = {
        "property_id": pid,
        "quick_cmd": "./check %s quick" % pid,
        "thorough_cmd": "./check %s thorough" % pid,
        "evidence_file": "/verif/evidence/%s.json" % pid,
        "replay_cmd_template": "./check replay {path}",
        "engine": "symgo",
        "level_claimed": {"category": checkcfg.PROPS[pid].get("level", "model_checking"), "text": meta["text"], "design_ref": meta["design_ref"]},
        "level_note": meta["note"],
        "technique": meta.get("technique", "solver-based bounded checking: symbolic execution of the real Go code (go/ssa) with z3 deciding every branch and assertion; counterexamples replayed natively"),
    }
    checks.append(c)
na = [{"property_id": p, "reason": r} for p, r in sorted(mm.NOT_APPLICABLE.items()) if p not in checkcfg.PROPS]
man = {
    "version": 1,
    "setup_cmd": "./check build",
    "hooks": {"guard": "verif", "enable": "none needed: harnesses and native replay twins are injected with go/packages and `go test -overlay` overlays; no file in /repo carries instrumentation",
              "baseline_off_cmd": mm.BASELINE_OFF, "source_commits": [], "add_only": True},
    "engines": [{"name": "symgo", "path": "/verif/engine", "serves_properties": sorted(checkcfg.PROPS),
                 "kind_free_text": "symbolic executor for go/ssa (x/tools v0.29.0) with SMT terms for scalars (bit-vectors, FP, Reals), z3 -in incremental back end, native replay through go test -overlay"}],
    "checks": checks,
    "notes": mm.NOTES,
    "not_applicable": na,
}
json.dump(man, open(os.path.join(HERE, "MANIFEST.json"), "w"), indent=1)
print("MANIFEST.json: %d checks, %d not_applicable" % (len(checks), len(na)))
