BASELINE_OFF = "for m in . mpc/binance/ecdsa mpc/binance/eddsa mpc/bls mpc/ps test; do (cd /repo/$m && GOFLAGS=-mod=mod go test -vet=off -count=1 -timeout 25m ./...) || exit 1; done"

NOTES = ("All checks are bounded: a pass means 'no counterexample for any value inside the stated bounds' (bounds, stubs and assumptions are "
         "listed in each evidence file), not an unbounded proof. No hooks were added to /repo; fixes of genuine defects are separate 'fix:' commits "
         "listed in known_findings.json.")

_PENDING = "check not built yet in this session (engine tier or harness pending); to be claimed or declared out of reach with a specific reason"
NOT_APPLICABLE = {p: _PENDING for p in ["C%02d" % i for i in range(1, 21)]}

META = {
    "C13": dict(
        text="Bounded model checking of the real encode/decode functions with every identifier, round, digest and view entry symbolic over its full range: "
             "the solver finds any value that fails to round-trip (it found sender=256 and member id 256 on the original tree).",
        design_ref="DESIGN.md §4 C13",
        note="Views up to 4 (6 thorough) entries; SHA-256 as collision-free uninterpreted function for the topic derivation; ASN.1 serialisation of stored data is not encoded.",
    ),
}
