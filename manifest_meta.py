BASELINE_OFF = "for m in . mpc/binance/ecdsa mpc/binance/eddsa mpc/bls mpc/ps test; do (cd /repo/$m && GOFLAGS=-mod=mod go test -vet=off -count=1 -timeout 25m ./...) || exit 1; done"

NOTES = ("All checks are bounded: a pass means 'no counterexample for any value inside the stated bounds' (bounds, stubs and assumptions are "
         "listed in each evidence file), not an unbounded proof. No hooks were added to /repo; fixes of genuine defects are separate 'fix:' commits "
         "listed in known_findings.json.")

_PENDING = "check not built yet in this session (engine tier or harness pending); to be claimed or declared out of reach with a specific reason"
NOT_APPLICABLE = {p: _PENDING for p in ["C%02d" % i for i in range(1, 21)]}

META = {
    "C13": dict(
        text="Bounded model checking of the real encode/decode functions with every identifier, round, digest and view entry symbolic over its full range: "
             "the solver finds any value that fails to round-trip (it found sender=256 and member id 256 on the original tree).",
        design_ref="DESIGN.md §4 C13",
        note="Views up to 4 (6 thorough) entries; SHA-256 as collision-free uninterpreted function for the topic derivation; ASN.1 public parameters and stored share data go through an opaque structure-preserving codec model in whole BLS and PS sessions run with arbitrary symbolic 16-bit party identifiers (encoding/asn1 itself is not executed).",
    ),
    "C02": dict(
        text="Bounded model checking (S2) of the real rbc.Receiver: two honest receivers, all other participants Byzantine, k events chosen and filled in by the solver "
             "(any broadcast, any acknowledgement incl. about itself, honest acks in any order, re-sends); agreement asserted after every event. "
             "Plus one inductive step (S3) of a two-receiver invariant from an arbitrary invariant state, which extends the claim to histories of any length inside the finite digest/round domain.",
        design_ref="DESIGN.md §4 C02",
        note="N=3 k<=4, N=4 k<=3 quick (k<=5/4 and N=5 thorough); from != self and from is a participant (filter checked at the threshold layer by C10/C12 harnesses); digest collision freeness.",
    ),
    "C03": dict(
        text="Same bounded runs as C02 with integrity monitors on the hand-over callback: attributed sender is a participant, the delivered object was received directly from that sender, "
             "at most once per (sender, round), never nil, point-to-point handed over exactly as received; plus an S3 step of the single-receiver invariant I1-I5.",
        design_ref="DESIGN.md §4 C03",
        note="Same bounds and assumptions as C02.",
    ),
    "C04": dict(
        text="S3 order-independence step (state after any received subset is the canonical state of that subset) and S2 complete system runs of N real receivers over every delivery order.",
        design_ref="DESIGN.md §4 C04",
        note="All parties honest; N=2 (2 senders x 2 rounds), N=3 (1-2 senders) quick; N=3 two rounds and N=4 thorough.",
    ),
    "C06": dict(
        text="Bounded model checking of the real id-translation code with all node ids, party ids and the Go map iteration order symbolic: Init arguments, OnMsg attribution, point-to-point destination, duplicate-party refusal; DKG path executed through the real KeyGen/runDKG with scripted synchronisers.",
        design_ref="DESIGN.md §4 C06",
        note="3 configured nodes, 2 participants; recording stubs for backend, RBC factory and synchroniser.",
    ),
    "C10": dict(
        text="One single-call harness per network-facing entry point with symbolic bytes, lengths, type, source and session state; the engine's built-in run-time failure assertions (bounds, nil, type assertion, nil map, explicit panic, deadlock) are the oracle.",
        design_ref="DESIGN.md §4 C10",
        note='15 entry points; inputs bounded as stated per run in the evidence; asn1-havoc counterexamples cannot be replayed natively (not reported unless a re-encoded twin reproduces them); library internals (asn1, protobuf, TLS, curve arithmetic) are modelled.',
    ),
    "C12": dict(
        text="Bounded model checking of the real Scheme.Sign/KeyGen executed with goroutines, select, mutexes and context under the engine's symbolic scheduler; session outcome symbolic; handler tables read after each return and a follow-up call made.",
        design_ref="DESIGN.md §4 C12",
        note='Scripted synchroniser / reliable-broadcast / back-end stubs with symbolic outcomes (incl. never completing, slow to abort); canonical schedule plus all choices at blocking points; members-only runs over all 16-bit ids.',
    ),
    "C14": dict(
        text="Bounded model checking with the thread schedule as a symbolic variable: the real msg.Box executed by the engine's scheduler, context switches before every acquire-type operation chosen by the solver "
             "under a preemption bound; exactly-once and order asserted per message, separately for receive calls that overlap the first Send (where the tree has a known, recorded defect) and for those that do not.",
        design_ref="DESIGN.md §4 C14",
        note="2-3 goroutines, 2-3 messages, <= 2 preemptions quick (<= 4 thorough); counterexample schedules are replayed natively through a generated yield-point copy of msgbox.go (go test -overlay).",
    ),
    "C15": dict(
        text="Bounded model checking of the real msg.Box, sequential, with the operation sequence, senders, topics, epoch jumps and wall clock symbolic; a ghost model decides which messages were within the limits; bookkeeping maps read in-package.",
        design_ref="DESIGN.md §4 C15",
        note="k <= 4 operations quick (5 thorough), limits 1-2 topics per sender, expiry 4 epochs; ticker replaced by direct writes of the epoch counter.",
    ),
    "C07": dict(
        text="Lemma-wise bounded model checking of the real disc.Member: what one message may change (L1), what intersectedView may return (L2), when the real Synchronize may invoke its continuation against an arbitrary environment (L3), plus bounded honest system runs over every delivery order; the composition argument is in DESIGN.md.",
        design_ref="DESIGN.md §4 C07",
        note="sync.Map / HMAC / ticker / context modelled in harness Go; universe of 4 ids spanning the 16-bit range; <= 2 (3 thorough) environment events per Synchronize; liveness only inside the bounded honest runs.",
    ),
    "C16": dict(
        text="Bounded model checking of the real handleConn/authenticateConnection with every handshake field and its length symbolic, two registered (domain, identity) pairs, truncation and chunking; cryptography as uninterpreted recording stubs; "
             "whenever a message is attributed the conditions of the property are asserted. One recorded known finding (ambiguous lookup key).",
        design_ref="DESIGN.md §4 C16",
        note="TLS/X.509/ECDSA assumed correct (stubs); fields of 1-3 bytes; native replay runs the real net.go with the same stubs substituted by a generated call rewrite.",
    ),
    "C17": dict(
        text="Bounded model checking of framing (send -> readMsg round trip, length-limit refusal) and of concurrent senders with the real writer goroutines, an unreachable or breaking peer and the queue-full timeout, under all scheduler choices at blocking points.",
        design_ref="DESIGN.md §4 C17",
        note='Byte-stream model of the TLS connection (no sockets); payload <= 3 (8 thorough) bytes on the symbolic side; accept loop, late listener, held frames and stalled peers as scenarios with small symbolic choices.',
    ),
    "C01": dict(
        text="Bounded model checking of the real BLS DKG (n real TBLS instances with goroutines/condition variables) followed by the real restore/sign/aggregate/verify API for every signer set of size >= t, "
             "with all DKG randomness symbolic over an exponent-representation model of the curve: each assertion is a polynomial identity decided for every randomness; link-FIFO delivery orders by symbolic choice.",
        design_ref="DESIGN.md §4 C01",
        note="Model curve (field Q), n <= 3 (4 thorough), canonical goroutine schedule; orchestrator pass-through asserted in C12's harness; delivery/agreement layers are C02-C04/C07/C14.",
    ),
    "C05": dict(
        text="Bounded model checking: honest parties run the real TBLS.KeyGen against a Byzantine participant whose every message (share per victim, commitment, reveal, omissions, duplicates, phase order) is symbolic; "
             "consistency of completed parties, joint signing, no reveal before all commitments, no panic.",
        design_ref="DESIGN.md §4 C05",
        note="n = 3 (4 thorough), one Byzantine party, model curve, broadcast consistency assumed from C02, collision-free commitment hash.",
    ),
    "C08": dict(
        text="Bounded model checking of the complete honest threshold-PS flow on the real code (DKG, blind, sign on every party, unblind, prove for every signer set >= t, verify) over the model curve with all randomness symbolic.",
        design_ref="DESIGN.md §4 C08",
        note="n <= 3, L <= 2 quick (n = 4, L = 3 thorough); party ids 1..n; model curve.",
    ),
    "C09": dict(
        text="Bounded model checking of tamper classes on genuine BLS signatures and PS requests/proofs built from symbolic randomness: universal rejection where acceptance is impossible for every randomness, "
             "existence of rejection plus a generic concrete point where acceptance is a non-trivial algebraic condition; idempotence and non-mutation asserted. Computational unforgeability is explicitly not claimed.",
        design_ref="DESIGN.md §4 C09",
        note="Model curve; hash outputs are solver-chosen (so classes that rely on oracle unpredictability are 'generic'); n = 4, t = 3 (BLS), L = 1 (PS).",
    ),
    "C11": dict(
        text="Bounded model checking of the real TBLS.KeyGen / TPS.KeyGen (a peer silent after its k-th message; a Byzantine peer that withholds; the context ending by cancellation or deadline, at quiescence and at any scheduling point), of the failure paths of the real Scheme.Sign / KeyGen (barriers and back ends that fail or never complete, stuck dispatcher, busy session) and of the real disc.Member.Synchronize; a loop that never ends is reported when the native replay hangs.",
        design_ref="DESIGN.md §4 C11",
        note='One faulty peer; n = 3; model curve; schedules bounded by the preemption bound (0-1) plus all choices at blocking points.',
    ),
    "C18": dict(
        text="Bounded model checking of the real secret-sharing code with symbolic polynomial coefficients: reconstruction, key and signature aggregation for all (n,t) up to 5 (6 thorough) and all subsets, subset coverage as a query over an arbitrary bitmask, detection of one off-polynomial key.",
        design_ref="DESIGN.md §4 C18",
        note="Identities over Q (valid in Z_r since denominators are products of differences of evaluation points < 2^16 < r).",
    ),
    "C20": dict(
        text="Happens-before race monitor on the schedules the symbolic scheduler explores for bls and ps KeyGen || OnMsg, msg.Box HandleMessage || Send, threshold KeyGen || HandleMessage, 2-3 dispatchers on one session's real rbc.Receiver, disc Synchronize || HandleMessage; every reported pair is confirmed by replaying the solver-found schedule natively (time-slot enforcement) under the Go race detector.",
        design_ref="DESIGN.md §4 C20",
        note='Only the harnessed scenarios; <= 2 preemptions; over-approximated happens-before edges (may miss, does not invent); a race the native run does not confirm is not reported (two seeded races ended that way, DESIGN 8).',
    ),
    "C19": dict(
        text="Bounded model checking of the real ClassifyMsg/OnMsg of both tss-lib adapters against a routing oracle regenerated on every run from the tss-lib constructors: all pairs of message types, every (claimed key, transport sender) pair.",
        design_ref="DESIGN.md §4 C19",
        note="protobuf and the tss-lib parser stubbed in the classification / sender runs; the Sign digest clause and the re-Init run execute math/big (pure-Go sources, build tag math_big_pure_go) and tss-lib's party-id / parameter code from their sources with only the signing party stubbed.",
    ),
}
